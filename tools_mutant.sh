#!/bin/bash
# tools_mutant.sh <patch.diff> <prop> [tier]  — apply a patch to /repo, run one check, revert.
set -u
patch="$1"; prop="$2"; tier="${3:-quick}"
git -C /repo diff --quiet || { echo "repo dirty"; exit 2; }
git -C /repo apply "$patch" || { echo "patch does not apply"; exit 2; }
/verif/vcheck "$prop" "$tier" > /tmp/mutant.out 2>&1; rc=$?
git -C /repo checkout -- . ; git -C /repo clean -fdq
grep -E "^(VIOLATION|KNOWN-FINDING|HARNESS-ERROR|C[0-9]+ )" /tmp/mutant.out | cut -c1-300 | head -${MUTANT_LINES:-12}
echo "exit=$rc"
# restore evidence written by the mutant run
git -C /verif checkout -- evidence 2>/dev/null
rm -rf /verif/replays
