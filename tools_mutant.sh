#!/bin/bash
# tools_mutant.sh <patch.diff> <prop> [tier]  — apply a patch to /repo, run one check, revert.
# Prints the verdict lines; evidence/replays written by the mutant run are discarded.
set -u
patch="$1"; prop="$2"; tier="${3:-quick}"
git -C /repo diff --quiet || { echo "repo dirty"; exit 2; }
git -C /repo apply "$patch" || { echo "patch does not apply"; exit 2; }
out=$(mktemp /tmp/mutant.XXXXXX)
t0=$(date +%s)
/verif/vcheck "$prop" "$tier" > "$out" 2>&1; rc=$?
git -C /repo checkout -- . ; git -C /repo clean -fdq
grep -E "^(VIOLATION|KNOWN-FINDING|HARNESS-ERROR|  signature|C[0-9]+ )" "$out" | cut -c1-400 | head -${MUTANT_LINES:-12}
echo "exit=$rc wall=$(( $(date +%s) - t0 ))s"
rm -f "$out"
# discard evidence / replays written by the mutant run
git -C /verif checkout -- evidence replays 2>/dev/null
git -C /verif clean -fdq replays evidence 2>/dev/null
exit 0
