#!/bin/bash
# tools_mutant.sh <patch.diff> <prop> [tier]  — applies a patch to a scratch worktree of /repo (outside /repo and /verif),
# runs one check against it (VERIF_REPO), removes the worktree.  /repo itself is not touched, so checks of the
# unchanged tree can run at the same time.  Evidence/replays written by the run go to a scratch directory.
set -u
patch="$1"; prop="$2"; tier="${3:-quick}"
wt=$(mktemp -d /tmp/mutant.XXXXXX)
git -C /repo worktree add -q --detach "$wt/repo" HEAD || exit 2
cleanup() { git -C /repo worktree remove --force "$wt/repo" 2>/dev/null; rm -rf "$wt"; rm -rf /verif/.build/alt-$(echo "$wt/repo" | cksum | cut -d' ' -f1); }
trap cleanup EXIT
git -C "$wt/repo" apply "$patch" || { echo "patch does not apply"; exit 2; }
mkdir -p "$wt/out"; cp /verif/known_findings.jsonl "$wt/out/"
t0=$(date +%s)
VERIF_REPO="$wt/repo" VERIF_OUT="$wt/out" /verif/vcheck "$prop" "$tier" > "$wt/log" 2>&1; rc=$?
grep -E "^(VIOLATION|KNOWN-FINDING|HARNESS-ERROR|  signature|C[0-9]+ )" "$wt/log" | cut -c1-400 | head -${MUTANT_LINES:-12}
echo "exit=$rc wall=$(( $(date +%s) - t0 ))s"
exit 0
