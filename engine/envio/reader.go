// Package envio provides scripted readers: the environment's answers to
// Read / Seek / ReadAt are choice points owned by the explorer.
package envio

import (
	"errors"
	"io"

	"verif/mc"
)

// ErrInjected is the error returned at an injected fault point.
var ErrInjected = errors.New("envio: injected I/O error")

// Chooser is the part of mc.Exec the reader needs.
type Chooser interface {
	Choose(label string, n int) int
}

// Policy fixes how every Read is answered (uniform chunking).
type Policy struct {
	MaxChunk    int  // deliver at most this many bytes per Read (0 = unlimited)
	DataWithEOF bool // return io.EOF together with the final bytes
}

// Reader is an instrumented in-memory io.ReadSeeker + io.ReaderAt.
type Reader struct {
	data []byte
	pos  int64

	// truncation: deliver data[:Cut] and then Terminal
	Cut      int
	Terminal int // 0 EOF, 1 injected error, 2 data-with-EOF on the final read

	Policy Policy
	// FirstChunks: the k-th Read that delivers data delivers at most FirstChunks[k] bytes (0 = no limit)
	FirstChunks []int
	dataReads   int

	// X, when set, makes every call a choice point with the deviations of Mode.
	X    Chooser
	Mode int // 0 none, 1 fault deviations {error, EOF-now, (0,nil)}, 2 short-read deviations {1 byte, half, len-1, data+EOF}

	// counters (C02)
	Calls          int64
	BytesRequested int64
	BytesDelivered int64
	Seeks          int64
	MaxSeek        int64
	FurthestOff    int64
	Budget         int64 // requests beyond this panic with WorkBudgetExceeded (0 = 64*len+1MiB)
	Exceeded       bool  // the work budget was hit (also visible when the library swallowed the panic)
	zeroReads      int
	failed         bool
}

// New returns a reader over data that delivers everything and then EOF.
func New(data []byte) *Reader {
	return &Reader{data: data, Cut: len(data)}
}

func (r *Reader) budget() {
	b := r.Budget
	if b == 0 {
		b = 64*int64(len(r.data)) + 1<<20
	}
	if r.BytesRequested > b || r.Calls > b {
		r.Exceeded = true
		panic(mc.WorkBudgetExceeded{Msg: "reader work budget exceeded: unbounded reading"})
	}
}

func (r *Reader) limit() int64 {
	if r.Cut < len(r.data) {
		return int64(r.Cut)
	}
	return int64(len(r.data))
}

// Read implements io.Reader.
func (r *Reader) Read(p []byte) (int, error) {
	r.Calls++
	r.BytesRequested += int64(len(p))
	r.budget()
	if r.failed {
		return 0, ErrInjected
	}
	if len(p) == 0 {
		return 0, nil
	}
	lim := r.limit()
	avail := lim - r.pos
	if avail <= 0 {
		if r.Terminal == 1 {
			return 0, ErrInjected
		}
		return 0, io.EOF
	}
	n := int64(len(p))
	if n > avail {
		n = avail
	}
	if r.Policy.MaxChunk > 0 && n > int64(r.Policy.MaxChunk) {
		n = int64(r.Policy.MaxChunk)
	}
	if r.dataReads < len(r.FirstChunks) {
		if c := int64(r.FirstChunks[r.dataReads]); c > 0 && n > c {
			n = c
		}
	}
	r.dataReads++
	withEOF := false
	if r.X != nil {
		switch r.Mode {
		case 1:
			switch r.X.Choose("read-fault", 4) {
			case 1:
				r.failed = true
				return 0, ErrInjected
			case 2:
				r.Cut = int(r.pos) // the stream ends here
				r.Terminal = 0
				return 0, io.EOF
			case 3:
				r.zeroReads++
				if r.zeroReads <= 1 {
					return 0, nil // legal, discouraged: one empty read
				}
			}
		case 2:
			switch r.X.Choose("read-short", 5) {
			case 1:
				n = 1
			case 2:
				n = (n + 1) / 2
			case 3:
				if n > 1 {
					n--
				}
			case 4:
				withEOF = true
			}
		}
	}
	copy(p, r.data[r.pos:r.pos+n])
	r.pos += n
	r.BytesDelivered += n
	if r.pos > r.FurthestOff {
		r.FurthestOff = r.pos
	}
	if r.pos >= lim {
		if r.Terminal == 2 || r.Policy.DataWithEOF || withEOF {
			return int(n), io.EOF
		}
	}
	return int(n), nil
}

// Seek implements io.Seeker.
func (r *Reader) Seek(offset int64, whence int) (int64, error) {
	r.Calls++
	r.Seeks++
	r.budget()
	if r.failed {
		return 0, ErrInjected
	}
	if r.X != nil && r.Mode == 1 {
		if r.X.Choose("seek-fault", 2) == 1 {
			r.failed = true
			return 0, ErrInjected
		}
	}
	var abs int64
	switch whence {
	case io.SeekStart:
		abs = offset
	case io.SeekCurrent:
		abs = r.pos + offset
	case io.SeekEnd:
		abs = r.limit() + offset
	default:
		return 0, errors.New("envio: invalid whence")
	}
	if abs < 0 {
		return 0, errors.New("envio: negative position")
	}
	if abs > r.MaxSeek {
		r.MaxSeek = abs
	}
	r.pos = abs
	return abs, nil
}

// ReadAt implements io.ReaderAt.
func (r *Reader) ReadAt(p []byte, off int64) (int, error) {
	r.Calls++
	r.BytesRequested += int64(len(p))
	r.budget()
	if r.failed {
		return 0, ErrInjected
	}
	if r.X != nil && r.Mode == 1 {
		if r.X.Choose("readat-fault", 2) == 1 {
			r.failed = true
			return 0, ErrInjected
		}
	}
	lim := r.limit()
	if off >= lim {
		if r.Terminal == 1 {
			return 0, ErrInjected
		}
		return 0, io.EOF
	}
	n := copy(p, r.data[off:lim])
	r.BytesDelivered += int64(n)
	if n < len(p) {
		if r.Terminal == 1 {
			return n, ErrInjected
		}
		return n, io.EOF
	}
	if off+int64(n) >= lim && (r.Terminal == 2 || r.Policy.DataWithEOF) {
		return n, io.EOF // a ReaderAt may report EOF together with the last bytes
	}
	return n, nil
}

// Pos is the current offset.
func (r *Reader) Pos() int64 { return r.pos }
