// Command overlaygen scans the repository under test and writes a
// `go build -overlay` file that (a) rewrites every `"sync"` import of a
// non-test library file to the vsync shim and (b) injects the shim as the
// virtual package <module>/verifshim/vsync.  /repo is never modified.
//
// usage: overlaygen <repo> <shim-src-dir> <out-dir>
// It also reports `go` statements and sync/atomic imports it found, since
// those are outside the scheduler's control.
package main

import (
	"encoding/json"
	"fmt"
	"go/ast"
	"go/parser"
	"go/token"
	"os"
	"path/filepath"
	"strconv"
	"strings"
)

const shimPath = "github.com/evanoberholster/imagemeta/verifshim/vsync"

func main() {
	if len(os.Args) != 4 {
		fmt.Fprintln(os.Stderr, "usage: overlaygen <repo> <shim-src-dir> <out-dir>")
		os.Exit(2)
	}
	repo, shim, out := os.Args[1], os.Args[2], os.Args[3]
	replace := map[string]string{}
	report := struct {
		Rewritten []string `json:"rewritten"`
		GoStmts   []string `json:"go_statements"`
		Atomics   []string `json:"sync_atomic_imports"`
	}{}
	os.MkdirAll(filepath.Join(out, "files"), 0o755)
	n := 0
	err := filepath.Walk(repo, func(path string, info os.FileInfo, err error) error {
		if err != nil {
			return err
		}
		if info.IsDir() {
			b := info.Name()
			if b == ".git" || b == "testdata" || b == "cmd" || b == "gen" || (strings.HasPrefix(b, ".") && path != repo) {
				return filepath.SkipDir
			}
			return nil
		}
		if !strings.HasSuffix(path, ".go") || strings.HasSuffix(path, "_test.go") {
			return nil
		}
		src, err := os.ReadFile(path)
		if err != nil {
			return err
		}
		fset := token.NewFileSet()
		f, err := parser.ParseFile(fset, path, src, parser.ParseComments)
		if err != nil {
			return nil // not our problem: the build will say so
		}
		if f.Name.Name == "main" {
			return nil
		}
		for _, cg := range f.Comments {
			if cg.Pos() < f.Package && strings.Contains(cg.Text(), "+build ignore") || strings.Contains(cg.Text(), "go:build ignore") {
				return nil
			}
		}
		rel, _ := filepath.Rel(repo, path)
		var syncImp *ast.ImportSpec
		for _, im := range f.Imports {
			p, _ := strconv.Unquote(im.Path.Value)
			if p == "sync" {
				syncImp = im
			}
			if p == "sync/atomic" {
				report.Atomics = append(report.Atomics, rel)
			}
		}
		ast.Inspect(f, func(nd ast.Node) bool {
			if g, ok := nd.(*ast.GoStmt); ok {
				report.GoStmts = append(report.GoStmts, fmt.Sprintf("%s:%d", rel, fset.Position(g.Pos()).Line))
			}
			return true
		})
		if syncImp == nil {
			return nil
		}
		// textual rewrite of just the import path token keeps line numbers intact
		start := fset.Position(syncImp.Path.Pos()).Offset
		end := fset.Position(syncImp.Path.End()).Offset
		name := "sync "
		if syncImp.Name != nil {
			name = ""
		}
		ns := string(src[:start]) + name + strconv.Quote(shimPath) + string(src[end:])
		dst := filepath.Join(out, "files", fmt.Sprintf("%03d_%s", n, filepath.Base(path)))
		n++
		if err := os.WriteFile(dst, []byte(ns), 0o644); err != nil {
			return err
		}
		replace[path] = dst
		report.Rewritten = append(report.Rewritten, rel)
		return nil
	})
	if err != nil {
		fmt.Fprintln(os.Stderr, "overlaygen:", err)
		os.Exit(2)
	}
	ents, _ := os.ReadDir(shim)
	for _, e := range ents {
		if strings.HasSuffix(e.Name(), ".go") {
			replace[filepath.Join(repo, "verifshim", "vsync", e.Name())] = filepath.Join(shim, e.Name())
		}
	}
	// extra overlay entries (deliberate mutants): VERIF_EXTRA_OVERLAY=json file {"Replace":{...}}
	if extra := os.Getenv("VERIF_EXTRA_OVERLAY"); extra != "" {
		b, err := os.ReadFile(extra)
		if err == nil {
			var x struct{ Replace map[string]string }
			if json.Unmarshal(b, &x) == nil {
				for k, v := range x.Replace {
					replace[k] = v
				}
			}
		}
	}
	b, _ := json.MarshalIndent(map[string]interface{}{"Replace": replace}, "", " ")
	if err := os.WriteFile(filepath.Join(out, "overlay.json"), b, 0o644); err != nil {
		fmt.Fprintln(os.Stderr, err)
		os.Exit(2)
	}
	rb, _ := json.MarshalIndent(report, "", " ")
	os.WriteFile(filepath.Join(out, "report.json"), rb, 0o644)
}
