package main

// C16 — value types survive text / JSON / MessagePack round trips; every
// decoder is total.

import (
	"bytes"
	"encoding/json"
	"fmt"
	"math"
	"strings"

	"verif/mc"

	"github.com/evanoberholster/imagemeta/imagehash"
	"github.com/evanoberholster/imagemeta/imagetype"
	"github.com/evanoberholster/imagemeta/meta"
	"github.com/evanoberholster/imagemeta/meta/canon"
	"github.com/tinylib/msgp/msgp"
)

// ---- generic MessagePack codec adaptors ----

type mpVal interface {
	msgp.Marshaler
	msgp.Encodable
	msgp.Sizer
}
type mpPtr interface {
	msgp.Unmarshaler
	msgp.Decodable
}

// binCodec enumerates values of one type by index.
type binCodec struct {
	name   string
	n      int
	val    func(i int) mpVal         // the value (boxed)
	fresh  func() mpPtr              // new zero destination
	dirty  func() mpPtr              // destination pre-filled with a non-zero value
	equal  func(i int, p mpPtr) bool // *p == value i (bitwise for floats)
	sample func(i int) string        // printable
}

func f32eq(a, b float32) bool { return math.Float32bits(a) == math.Float32bits(b) }

func binCodecs() []binCodec {
	u8 := func(i int) int { return i }
	_ = u8
	var cs []binCodec
	// uint16 based meta enums: full 2^16
	cs = append(cs,
		binCodec{name: "meta.MeteringMode", n: 1 << 16, val: func(i int) mpVal { return meta.MeteringMode(i) },
			fresh: func() mpPtr { return new(meta.MeteringMode) }, dirty: func() mpPtr { v := meta.MeteringMode(77); return &v },
			equal: func(i int, p mpPtr) bool { return *p.(*meta.MeteringMode) == meta.MeteringMode(i) }},
		binCodec{name: "meta.ExposureMode", n: 1 << 16, val: func(i int) mpVal { return meta.ExposureMode(i) },
			fresh: func() mpPtr { return new(meta.ExposureMode) }, dirty: func() mpPtr { v := meta.ExposureMode(77); return &v },
			equal: func(i int, p mpPtr) bool { return *p.(*meta.ExposureMode) == meta.ExposureMode(i) }},
		binCodec{name: "meta.ExposureProgram", n: 1 << 16, val: func(i int) mpVal { return meta.ExposureProgram(i) },
			fresh: func() mpPtr { return new(meta.ExposureProgram) }, dirty: func() mpPtr { v := meta.ExposureProgram(77); return &v },
			equal: func(i int, p mpPtr) bool { return *p.(*meta.ExposureProgram) == meta.ExposureProgram(i) }},
		binCodec{name: "meta.Flash", n: 1 << 16, val: func(i int) mpVal { return meta.Flash(i) },
			fresh: func() mpPtr { return new(meta.Flash) }, dirty: func() mpPtr { v := meta.Flash(77); return &v },
			equal: func(i int, p mpPtr) bool { return *p.(*meta.Flash) == meta.Flash(i) }},
		binCodec{name: "meta.FlashMode", n: 1 << 8, val: func(i int) mpVal { return meta.FlashMode(i) },
			fresh: func() mpPtr { return new(meta.FlashMode) }, dirty: func() mpPtr { v := meta.FlashMode(77); return &v },
			equal: func(i int, p mpPtr) bool { return *p.(*meta.FlashMode) == meta.FlashMode(i) }},
		binCodec{name: "meta.Orientation", n: 1 << 16, val: func(i int) mpVal { return meta.Orientation(i) },
			fresh: func() mpPtr { return new(meta.Orientation) }, dirty: func() mpPtr { v := meta.Orientation(77); return &v },
			equal: func(i int, p mpPtr) bool { return *p.(*meta.Orientation) == meta.Orientation(i) }},
		binCodec{name: "meta.Compression", n: 1 << 16, val: func(i int) mpVal { return meta.Compression(i) },
			fresh: func() mpPtr { return new(meta.Compression) }, dirty: func() mpPtr { v := meta.Compression(77); return &v },
			equal: func(i int, p mpPtr) bool { return *p.(*meta.Compression) == meta.Compression(i) }},
		binCodec{name: "meta.ExposureBias", n: 1 << 16, val: func(i int) mpVal { return meta.ExposureBias(int16(uint16(i))) },
			fresh: func() mpPtr { return new(meta.ExposureBias) }, dirty: func() mpPtr { v := meta.ExposureBias(77); return &v },
			equal: func(i int, p mpPtr) bool { return *p.(*meta.ExposureBias) == meta.ExposureBias(int16(uint16(i))) }},
		binCodec{name: "imagetype.ImageType", n: 1 << 8, val: func(i int) mpVal { return imagetype.ImageType(i) },
			fresh: func() mpPtr { return new(imagetype.ImageType) }, dirty: func() mpPtr { v := imagetype.ImageType(77); return &v },
			equal: func(i int, p mpPtr) bool { return *p.(*imagetype.ImageType) == imagetype.ImageType(i) }},
	)
	// canon int16 enums
	s := func(i int) int16 { return int16(uint16(i)) }
	cs = append(cs,
		binCodec{name: "canon.ContinuousDrive", n: 1 << 16, val: func(i int) mpVal { return canon.ContinuousDrive(s(i)) },
			fresh: func() mpPtr { return new(canon.ContinuousDrive) }, dirty: func() mpPtr { v := canon.ContinuousDrive(77); return &v },
			equal: func(i int, p mpPtr) bool { return *p.(*canon.ContinuousDrive) == canon.ContinuousDrive(s(i)) }},
		binCodec{name: "canon.FocusMode", n: 1 << 16, val: func(i int) mpVal { return canon.FocusMode(s(i)) },
			fresh: func() mpPtr { return new(canon.FocusMode) }, dirty: func() mpPtr { v := canon.FocusMode(77); return &v },
			equal: func(i int, p mpPtr) bool { return *p.(*canon.FocusMode) == canon.FocusMode(s(i)) }},
		binCodec{name: "canon.MeteringMode", n: 1 << 16, val: func(i int) mpVal { return canon.MeteringMode(s(i)) },
			fresh: func() mpPtr { return new(canon.MeteringMode) }, dirty: func() mpPtr { v := canon.MeteringMode(77); return &v },
			equal: func(i int, p mpPtr) bool { return *p.(*canon.MeteringMode) == canon.MeteringMode(s(i)) }},
		binCodec{name: "canon.FocusRange", n: 1 << 16, val: func(i int) mpVal { return canon.FocusRange(s(i)) },
			fresh: func() mpPtr { return new(canon.FocusRange) }, dirty: func() mpPtr { v := canon.FocusRange(77); return &v },
			equal: func(i int, p mpPtr) bool { return *p.(*canon.FocusRange) == canon.FocusRange(s(i)) }},
		binCodec{name: "canon.ExposureMode", n: 1 << 16, val: func(i int) mpVal { return canon.ExposureMode(s(i)) },
			fresh: func() mpPtr { return new(canon.ExposureMode) }, dirty: func() mpPtr { v := canon.ExposureMode(77); return &v },
			equal: func(i int, p mpPtr) bool { return *p.(*canon.ExposureMode) == canon.ExposureMode(s(i)) }},
		binCodec{name: "canon.BracketMode", n: 1 << 16, val: func(i int) mpVal { return canon.BracketMode(s(i)) },
			fresh: func() mpPtr { return new(canon.BracketMode) }, dirty: func() mpPtr { v := canon.BracketMode(77); return &v },
			equal: func(i int, p mpPtr) bool { return *p.(*canon.BracketMode) == canon.BracketMode(s(i)) }},
		binCodec{name: "canon.AESetting", n: 1 << 16, val: func(i int) mpVal { return canon.AESetting(s(i)) },
			fresh: func() mpPtr { return new(canon.AESetting) }, dirty: func() mpPtr { v := canon.AESetting(77); return &v },
			equal: func(i int, p mpPtr) bool { return *p.(*canon.AESetting) == canon.AESetting(s(i)) }},
		binCodec{name: "canon.AFAreaMode", n: 1 << 16, val: func(i int) mpVal { return canon.AFAreaMode(s(i)) },
			fresh: func() mpPtr { return new(canon.AFAreaMode) }, dirty: func() mpPtr { v := canon.AFAreaMode(77); return &v },
			equal: func(i int, p mpPtr) bool { return *p.(*canon.AFAreaMode) == canon.AFAreaMode(s(i)) }},
	)
	// float types: boundary menu of bit patterns
	fm := floatMenu()
	cs = append(cs,
		binCodec{name: "meta.FocalLength", n: len(fm), val: func(i int) mpVal { return meta.FocalLength(fm[i]) },
			fresh: func() mpPtr { return new(meta.FocalLength) }, dirty: func() mpPtr { v := meta.FocalLength(77); return &v },
			equal: func(i int, p mpPtr) bool { return f32eq(float32(*p.(*meta.FocalLength)), fm[i]) }},
		binCodec{name: "meta.Aperture", n: len(fm), val: func(i int) mpVal { return meta.Aperture(fm[i]) },
			fresh: func() mpPtr { return new(meta.Aperture) }, dirty: func() mpPtr { v := meta.Aperture(77); return &v },
			equal: func(i int, p mpPtr) bool { return f32eq(float32(*p.(*meta.Aperture)), fm[i]) }},
		binCodec{name: "meta.ExposureTime", n: len(fm), val: func(i int) mpVal { return meta.ExposureTime(fm[i]) },
			fresh: func() mpPtr { return new(meta.ExposureTime) }, dirty: func() mpPtr { v := meta.ExposureTime(77); return &v },
			equal: func(i int, p mpPtr) bool { return f32eq(float32(*p.(*meta.ExposureTime)), fm[i]) }},
	)
	// Dimensions: menu^2
	dm := []uint32{0, 1, 2, 127, 128, 255, 256, 65535, 65536, 1<<31 - 1, 1 << 31, 1<<32 - 1}
	cs = append(cs, binCodec{name: "meta.Dimensions", n: len(dm) * len(dm),
		val:   func(i int) mpVal { return meta.Dimensions{Width: dm[i/len(dm)], Height: dm[i%len(dm)]} },
		fresh: func() mpPtr { return new(meta.Dimensions) }, dirty: func() mpPtr { return &meta.Dimensions{Width: 7, Height: 9} },
		equal: func(i int, p mpPtr) bool {
			return *p.(*meta.Dimensions) == meta.Dimensions{Width: dm[i/len(dm)], Height: dm[i%len(dm)]}
		}})
	// FocusDistance: menu^2 (pointer receivers)
	im := []int16{0, 1, -1, 127, 128, -128, -129, 255, 256, 32767, -32768}
	cs = append(cs, binCodec{name: "canon.FocusDistance", n: len(im) * len(im),
		val:   func(i int) mpVal { v := canon.FocusDistance{im[i/len(im)], im[i%len(im)]}; return &v },
		fresh: func() mpPtr { return new(canon.FocusDistance) }, dirty: func() mpPtr { return &canon.FocusDistance{7, 9} },
		equal: func(i int, p mpPtr) bool {
			return *p.(*canon.FocusDistance) == canon.FocusDistance{im[i/len(im)], im[i%len(im)]}
		}})
	// hashes: bit walks
	hw := hashWords()
	cs = append(cs,
		binCodec{name: "imagehash.PHash64", n: len(hw), val: func(i int) mpVal { return imagehash.PHash64(hw[i]) },
			fresh: func() mpPtr { return new(imagehash.PHash64) }, dirty: func() mpPtr { v := imagehash.PHash64(77); return &v },
			equal: func(i int, p mpPtr) bool { return *p.(*imagehash.PHash64) == imagehash.PHash64(hw[i]) }},
		binCodec{name: "imagehash.Ahash", n: len(hw), val: func(i int) mpVal { return imagehash.Ahash(hw[i]) },
			fresh: func() mpPtr { return new(imagehash.Ahash) }, dirty: func() mpPtr { v := imagehash.Ahash(77); return &v },
			equal: func(i int, p mpPtr) bool { return *p.(*imagehash.Ahash) == imagehash.Ahash(hw[i]) }},
		binCodec{name: "imagehash.PHash256", n: len(hw) * 4,
			val: func(i int) mpVal {
				var v imagehash.PHash256
				v[i%4] = hw[i/4]
				v[(i+1)%4] = ^hw[i/4]
				return &v
			},
			fresh: func() mpPtr { return new(imagehash.PHash256) }, dirty: func() mpPtr { return &imagehash.PHash256{7, 9, 11, 13} },
			equal: func(i int, p mpPtr) bool {
				var v imagehash.PHash256
				v[i%4] = hw[i/4]
				v[(i+1)%4] = ^hw[i/4]
				return *p.(*imagehash.PHash256) == v
			}},
	)
	return cs
}

func floatMenu() []float32 {
	var out []float32
	bits := []uint32{0, 0x80000000, 1, 0x007fffff, 0x00800000, 0x3f800000, 0xbf800000, 0x7f7fffff, 0xff7fffff, 0x7f800000, 0xff800000, 0x7fc00000, 0x7fa00001, 0xffc00000}
	for _, b := range bits {
		out = append(out, math.Float32frombits(b))
	}
	for _, f := range []float32{0.005, 0.01, 0.1, 1.0 / 3, 0.5, 1.4, 1.8, 2.8, 5.6, 8, 11, 22, 35, 50, 85, 100, 200, 400, 1200, 65535.99, 1e6, 1e10, 3.4e38, 1.0 / 4000, 1.0 / 8000, 30} {
		out = append(out, f, -f)
	}
	// single-bit walks
	for i := 0; i < 32; i++ {
		out = append(out, math.Float32frombits(1<<uint(i)), math.Float32frombits(^uint32(1<<uint(i))))
	}
	return out
}

func hashWords() []uint64 {
	out := []uint64{0, ^uint64(0), 0x8000000000000000, 1, 0x00000000ffffffff, 0xffffffff00000000, 0x0123456789abcdef, 0xfedcba9876543210, 0x7f, 0x80, 0xff, 0x100, 0xffff, 0x10000}
	for i := 0; i < 64; i++ {
		out = append(out, 1<<uint(i))
		for j := i + 1; j < 64; j++ {
			out = append(out, 1<<uint(i)|1<<uint(j))
		}
	}
	return out
}

type failAgg struct {
	first string
	n     int
}

type failSet struct {
	worst   float64 // C18: worst error relative to the bound seen in this execution
	worstAt string
	prefix  string
	m       map[string]*failAgg
	order   []string
}

func newFailSet(prefix string) *failSet { return &failSet{prefix: prefix, m: map[string]*failAgg{}} }
func (fs *failSet) add(kind, first string) {
	a := fs.m[kind]
	if a == nil {
		a = &failAgg{first: first}
		fs.m[kind] = a
		fs.order = append(fs.order, kind)
	}
	a.n++
}
func (fs *failSet) flush(x *mc.Exec, total int) {
	for _, k := range fs.order {
		a := fs.m[k]
		sig := "mismatch|" + fs.prefix + "|" + k
		if strings.HasPrefix(k, "panic|") {
			sig = k
		}
		x.Fail(sig, fmt.Sprintf("%s: %s fails for %d of %d cases; first: %s", fs.prefix, k, a.n, total, a.first),
			map[string]string{"subject": fs.prefix, "law": k, "first_case": a.first, "failing_cases": fmt.Sprint(a.n)})
	}
}

func c16MsgpHarness(cs []binCodec) mc.Harness {
	return func(x *mc.Exec) {
		c := cs[x.All("type", len(cs))]
		x.Note("type", c.name)
		x.Bulk = int64(c.n) - 1
		fs := newFailSet(c.name + ".msgp")
		var buf bytes.Buffer
		for i := 0; i < c.n; i++ {
			v := c.val(i)
			show := fmt.Sprintf("#%d %v", i, v)
			pi := mc.Guard(func() {
				b, err := v.MarshalMsg(nil)
				if err != nil {
					fs.add("MarshalMsg-error", show)
					return
				}
				if len(b) > v.Msgsize() {
					fs.add("Msgsize-not-upper-bound", fmt.Sprintf("%s len=%d Msgsize=%d", show, len(b), v.Msgsize()))
				}
				for _, dst := range []mpPtr{c.fresh(), c.dirty()} {
					left, err := dst.UnmarshalMsg(b)
					if err != nil || len(left) != 0 || !c.equal(i, dst) {
						fs.add("UnmarshalMsg(MarshalMsg(v))!=v", fmt.Sprintf("%s err=%v left=%d", show, err, len(left)))
					}
				}
				// with trailing bytes: must return them untouched
				d := c.fresh()
				left, err := d.UnmarshalMsg(append(append([]byte{}, b...), 0xc0, 0x01))
				if err != nil || !bytes.Equal(left, []byte{0xc0, 0x01}) || !c.equal(i, d) {
					fs.add("UnmarshalMsg-trailing", show)
				}
				// streaming form
				buf.Reset()
				w := msgp.NewWriter(&buf)
				if err := v.EncodeMsg(w); err != nil {
					fs.add("EncodeMsg-error", show)
					return
				}
				w.Flush()
				if !bytes.Equal(buf.Bytes(), b) {
					fs.add("EncodeMsg!=MarshalMsg", show)
				}
				for _, dst := range []mpPtr{c.fresh(), c.dirty()} {
					r := msgp.NewReader(bytes.NewReader(b))
					if err := dst.DecodeMsg(r); err != nil || !c.equal(i, dst) {
						fs.add("DecodeMsg(EncodeMsg(v))!=v", fmt.Sprintf("%s err=%v", show, err))
					}
				}
				// totality: every prefix and every single-byte substitution (first 2 bytes: all 256 values; others: menu)
				for k := 0; k < len(b); k++ {
					c.fresh().UnmarshalMsg(b[:k])
					c.fresh().DecodeMsg(msgp.NewReader(bytes.NewReader(b[:k])))
				}
				if i < 64 || i%97 == 0 {
					mb := append([]byte{}, b...)
					for k := 0; k < len(mb); k++ {
						old := mb[k]
						for val := 0; val < 256; val++ {
							mb[k] = byte(val)
							c.fresh().UnmarshalMsg(mb)
						}
						mb[k] = old
					}
				}
			})
			if pi != nil {
				fs.add(pi.Signature(), show+" "+pi.Value)
			}
		}
		// totality on all byte strings of length <= 2
		pi := mc.Guard(func() {
			c.fresh().UnmarshalMsg(nil)
			c.fresh().DecodeMsg(msgp.NewReader(bytes.NewReader(nil)))
			var b [2]byte
			for a := 0; a < 256; a++ {
				b[0] = byte(a)
				c.fresh().UnmarshalMsg(b[:1])
				for bb := 0; bb < 256; bb++ {
					b[1] = byte(bb)
					c.fresh().UnmarshalMsg(b[:2])
					if a >= 0xc0 && a < 0xe0 {
						c.fresh().DecodeMsg(msgp.NewReader(bytes.NewReader(b[:2])))
					}
				}
			}
		})
		x.Bulk += 256*256 + 256
		if pi != nil {
			fs.add(pi.Signature(), "arbitrary bytes: "+pi.Value)
		}
		x.Outcome = c.name
		fs.flush(x, c.n)
	}
}

// ---- text forms ----

type textCase struct {
	name   string
	n      int
	check  func(i int, fs *failSet) // exact round trip for valid value i + idempotence
	decode func(t []byte) error     // totality target
}

func textCases(tier string) []textCase {
	var tc []textCase
	enumText := func(name string, doc map[int]string, n int, marshal func(i int) ([]byte, error), unmarshal func(t []byte) (int, error)) textCase {
		return textCase{name: name, n: n,
			check: func(i int, fs *failSet) {
				t, err := marshal(i)
				if err != nil {
					fs.add("MarshalText-error", fmt.Sprint(i))
					return
				}
				v, err := unmarshal(t)
				if _, ok := doc[i]; ok {
					if err != nil || v != i {
						fs.add("UnmarshalText(MarshalText(v))!=v", fmt.Sprintf("%d -> %q -> %d (err %v)", i, t, v, err))
					}
					if want := doc[i]; string(t) != want {
						fs.add("MarshalText!=documented", fmt.Sprintf("%d -> %q want %q", i, t, want))
					}
				}
				if err == nil {
					t2, _ := marshal(v)
					if !bytes.Equal(t2, t) {
						kind := "Marshal(Unmarshal(Marshal(v)))!=Marshal(v)"
						if _, ok := doc[i]; !ok {
							kind += fmt.Sprintf(" for undocumented values (fallback name %q decodes to the value named %q)", t, t2)
						}
						fs.add(kind, fmt.Sprintf("%d -> %q -> %d -> %q", i, t, v, t2))
					}
				}
			},
			decode: func(t []byte) error { _, err := unmarshal(t); return err }}
	}
	tc = append(tc,
		enumText("imagetype.ImageType.text", docImageType, 256,
			func(i int) ([]byte, error) { return imagetype.ImageType(i).MarshalText() },
			func(t []byte) (int, error) { var v imagetype.ImageType; err := v.UnmarshalText(t); return int(v), err }),
		enumText("meta.MeteringMode.text", docMeteringMode, 1<<16,
			func(i int) ([]byte, error) { return meta.MeteringMode(i).MarshalText() },
			func(t []byte) (int, error) { v := meta.MeteringMode(99); err := v.UnmarshalText(t); return int(v), err }),
		enumText("meta.ExposureMode.text", docExposureMode, 1<<16,
			func(i int) ([]byte, error) { return meta.ExposureMode(i).MarshalText() },
			func(t []byte) (int, error) { v := meta.ExposureMode(99); err := v.UnmarshalText(t); return int(v), err }),
		enumText("meta.ExposureProgram.text", docExposureProgram, 1<<16,
			func(i int) ([]byte, error) { return meta.ExposureProgram(i).MarshalText() },
			func(t []byte) (int, error) {
				v := meta.ExposureProgram(99)
				err := v.UnmarshalText(t)
				return int(v), err
			}),
	)
	// MeteringMode JSON (numeric)
	tc = append(tc, textCase{name: "meta.MeteringMode.json", n: 1 << 16,
		check: func(i int, fs *failSet) {
			b, err := meta.MeteringMode(i).MarshalJSON()
			if err != nil {
				fs.add("MarshalJSON-error", fmt.Sprint(i))
				return
			}
			v := meta.MeteringMode(99)
			err = v.UnmarshalJSON(b)
			if _, ok := docMeteringMode[i]; ok && (err != nil || int(v) != i) {
				fs.add("UnmarshalJSON(MarshalJSON(v))!=v", fmt.Sprintf("%d -> %s -> %d (err %v)", i, b, v, err))
			}
			if err != nil {
				// "Marshal(Unmarshal(Marshal(v))) == Marshal(v) for every v": the decoder must at least accept what the
				// encoder of the same type wrote
				fs.add("UnmarshalJSON rejects the output of MarshalJSON", fmt.Sprintf("%d -> %s -> err %v", i, b, err))
			} else {
				b2, _ := v.MarshalJSON()
				if !bytes.Equal(b, b2) {
					fs.add("idempotence", fmt.Sprint(i))
				}
			}
		},
		decode: func(t []byte) error { var v meta.MeteringMode; return v.UnmarshalJSON(t) }})
	// ExposureBias: all 2^16 encodings, fresh and dirty destination
	tc = append(tc, textCase{name: "meta.ExposureBias.text", n: 1 << 16,
		check: func(i int, fs *failSet) {
			eb := meta.ExposureBias(int16(uint16(i)))
			t, err := eb.MarshalText()
			if err != nil {
				fs.add("MarshalText-error", fmt.Sprint(eb))
				return
			}
			for _, start := range []meta.ExposureBias{0, 0x0503} {
				v := start
				err = v.UnmarshalText(t)
				if err != nil || v != eb {
					kind := "UnmarshalText(MarshalText(v))!=v"
					if start != 0 {
						kind += " (destination held another value)"
					}
					fs.add(kind, fmt.Sprintf("%d (n=%d d=%d) -> %q -> %d (err %v)", int16(eb), int16(eb)>>8, uint8(eb), t, int16(v), err))
				}
			}
			if eb.String() != string(t) {
				fs.add("String!=MarshalText", fmt.Sprint(int16(eb)))
			}
		},
		decode: func(t []byte) error { var v meta.ExposureBias; return v.UnmarshalText(t) }})
	// floats: k/100 grid exact round trip
	grid := 6553600
	if tier == "quick" {
		grid = 655360
	}
	tc = append(tc,
		textCase{name: "meta.FocalLength.text", n: grid + 1,
			check: func(k int, fs *failSet) {
				f := meta.FocalLength(float32(float64(k) / 100))
				t, _ := f.MarshalText()
				var v meta.FocalLength = 7
				if err := v.UnmarshalText(t); err != nil || !f32eq(float32(v), float32(f)) {
					fs.add("UnmarshalText(MarshalText(v))!=v", fmt.Sprintf("%v -> %q -> %v (err %v)", float32(f), t, float32(v), err))
				}
				if want := fmt.Sprintf("%.2fmm", float64(k)/100); string(t) != want {
					fs.add("MarshalText-format", fmt.Sprintf("%v -> %q want %q", float32(f), t, want))
				}
				if f.String() != string(t) {
					fs.add("String!=MarshalText", fmt.Sprint(float32(f)))
				}
			},
			decode: func(t []byte) error { var v meta.FocalLength; return v.UnmarshalText(t) }},
		textCase{name: "meta.Aperture.text", n: grid + 1,
			check: func(k int, fs *failSet) {
				f := meta.Aperture(float32(float64(k) / 100))
				t, _ := f.MarshalText()
				var v meta.Aperture = 7
				if err := v.UnmarshalText(t); err != nil || !f32eq(float32(v), float32(f)) {
					fs.add("UnmarshalText(MarshalText(v))!=v", fmt.Sprintf("%v -> %q -> %v (err %v)", float32(f), t, float32(v), err))
				}
				if want := fmt.Sprintf("%.2f", float64(k)/100); string(t) != want {
					fs.add("MarshalText-format", fmt.Sprintf("%v -> %q want %q", float32(f), t, want))
				}
				_ = f.String()
			},
			decode: func(t []byte) error { var v meta.Aperture; return v.UnmarshalText(t) }},
		textCase{name: "meta.Aperture.ParseString", n: 1,
			check:  func(k int, fs *failSet) {},
			decode: func(t []byte) error { var v meta.Aperture; return v.ParseString(t) }},
		textCase{name: "meta.ExposureTime.text", n: grid/100 + 1,
			check: func(k int, fs *failSet) {
				// only a marshaller exists: it must return for every value
				f := meta.ExposureTime(float32(float64(k) / 100))
				t, err := f.MarshalText()
				if err != nil {
					fs.add("MarshalText-error", fmt.Sprint(float32(f)))
				}
				if f.String() != string(t) {
					fs.add("String!=MarshalText", fmt.Sprint(float32(f)))
				}
				if k > 0 {
					g := meta.ExposureTime(1 / float32(k))
					t, _ = g.MarshalText()
					if want := fmt.Sprintf("1/%d", k); k > 1 && k <= 8000 && string(t) != want {
						fs.add("MarshalText-reciprocal", fmt.Sprintf("1/%d -> %q", k, t))
					}
				}
			}},
	)
	return tc
}

var textAlphabet = []byte{'0', '1', '9', '/', '+', '-', '.', 'm', ' ', 0, 0xff, 'e', 'x', '{', '}', ':'}

func c16TextHarness(tier string) mc.Harness {
	tcs := textCases(tier)
	const chunks = 64
	return func(x *mc.Exec) {
		c := tcs[x.All("type", len(tcs))]
		ch := 0
		if c.n > 1<<17 {
			ch = x.All("chunk", chunks)
		}
		x.Note("type", c.name)
		fs := newFailSet(c.name)
		lo, hi := 0, c.n
		if c.n > 1<<17 {
			lo, hi = c.n*ch/chunks, c.n*(ch+1)/chunks
		}
		for i := lo; i < hi; i++ {
			pi := mc.Guard(func() { c.check(i, fs) })
			if pi != nil {
				fs.add(pi.Signature(), fmt.Sprintf("value #%d: %s", i, pi.Value))
			}
		}
		x.Bulk = int64(hi - lo)
		x.Outcome = c.name
		fs.flush(x, hi-lo)
	}
}

func c16TotalityHarness(tier string, maxLen int) mc.Harness {
	tcs := textCases(tier)
	var decs []textCase
	for _, c := range tcs {
		if c.decode != nil {
			decs = append(decs, c)
		}
	}
	// UUID decoders
	decs = append(decs,
		textCase{name: "meta.UUID.UnmarshalText", decode: func(t []byte) error { var u meta.UUID; return u.UnmarshalText(t) }},
		textCase{name: "meta.UUID.UnmarshalBinary", decode: func(t []byte) error { var u meta.UUID; return u.UnmarshalBinary(t) }},
		textCase{name: "meta.UUIDFromString", decode: func(t []byte) error { meta.UUIDFromString(string(t)); return nil }},
		textCase{name: "imagetype.FromString", decode: func(t []byte) error { imagetype.FromString(string(t)); return nil }},
	)
	A := len(textAlphabet)
	return func(x *mc.Exec) {
		c := decs[x.All("decoder", len(decs))]
		first := x.All("first-symbol", A+1) // A = the empty string and all strings of length 1
		x.Note("decoder", c.name)
		fs := newFailSet(c.name)
		var n int64
		try := func(t []byte) {
			n++
			pi := mc.Guard(func() { c.decode(t) })
			if pi != nil {
				fs.add(pi.Signature(), fmt.Sprintf("%q: %s", t, pi.Value))
			}
		}
		if first == A {
			try(nil)
			try([]byte{})
			for _, s := range textAlphabet {
				try([]byte{s})
			}
			// numbers at and around the widths the decoders narrow to, in every arrangement the text forms use
			nums := []string{"0", "1", "9", "10", "99", "127", "128", "255", "256", "32767", "32768", "65535", "65536", "65537", "131072",
				"2147483647", "2147483648", "4294967295", "4294967296", "4294967297", "8589934592", "9223372036854775807", "9223372036854775808",
				"18446744073709551615", "18446744073709551616", "18446744073709551617", "99999999999999999999999"}
			for _, a := range nums {
				for _, pre := range []string{"", "+", "-", "f/", "1/", " "} {
					for _, suf := range []string{"", ".0", ".5", "mm", "/", "/0", "/1", " "} {
						try([]byte(pre + a + suf))
					}
				}
				for _, b := range nums {
					for _, sign := range []string{"", "+", "-"} {
						try([]byte(sign + a + "/" + b))
						try([]byte(sign + a + "." + b))
					}
					try([]byte("\"" + a + "/" + b + "\""))
				}
			}
		} else {
			buf := make([]byte, maxLen)
			buf[0] = textAlphabet[first]
			var rec func(l, max int)
			rec = func(l, max int) {
				if l == max {
					try(buf[:max])
					return
				}
				for _, s := range textAlphabet {
					buf[l] = s
					rec(l+1, max)
				}
			}
			for L := 2; L <= maxLen; L++ {
				rec(1, L)
			}
		}
		x.Bulk = n
		x.Outcome = c.name
		fs.flush(x, int(n))
	}
}

// ---- UUID, hashes, JSON struct ----

func uuidValues() []meta.UUID {
	var out []meta.UUID
	for _, b := range []byte{0x00, 0x01, 0x7f, 0x80, 0xff, 0xab, 0xAB} {
		var u meta.UUID
		for i := range u {
			u[i] = b
		}
		out = append(out, u)
		for i := range u {
			v := u
			v[i] ^= 0x5a
			out = append(out, v)
		}
	}
	for bit := 0; bit < 128; bit++ {
		var u meta.UUID
		u[bit/8] = 1 << uint(bit%8)
		out = append(out, u)
	}
	out = append(out, meta.UUID{0x6b, 0xa7, 0xb8, 0x10, 0x9d, 0xad, 0x11, 0xd1, 0x80, 0xb4, 0x00, 0xc0, 0x4f, 0xd4, 0x30, 0xc8})
	return out
}

type everything struct {
	IT  imagetype.ImageType
	FL  meta.FocalLength
	AP  meta.Aperture
	EB  meta.ExposureBias
	MM  meta.MeteringMode
	EM  meta.ExposureMode
	EP  meta.ExposureProgram
	FLa meta.Flash
	OR  meta.Orientation
	CO  meta.Compression
	DI  meta.Dimensions
	UU  meta.UUID
	PH  imagehash.PHash64
	P2  imagehash.PHash256
	AH  imagehash.Ahash
	CD  canon.ContinuousDrive
	FM  canon.FocusMode
	FD  canon.FocusDistance
}

func c16MiscHarness() mc.Harness {
	uv := uuidValues()
	hw := hashWords()
	return func(x *mc.Exec) {
		which := x.All("group", 4)
		switch which {
		case 0: // UUID text forms
			fs := newFailSet("meta.UUID")
			n := 0
			for _, u := range uv {
				pi := mc.Guard(func() {
					t, err := u.MarshalText()
					canon := string(t)
					if err != nil || len(canon) != 36 || u.String() != canon {
						fs.add("MarshalText", fmt.Sprintf("%x", u[:]))
						return
					}
					hash := strings.ReplaceAll(canon, "-", "")
					forms := []string{canon, hash, "{" + canon + "}", "{" + hash + "}", "urn:uuid:" + canon, "urn:uuid:" + hash}
					for _, f := range forms {
						for _, cs := range []string{f, strings.ToUpper(strings.TrimPrefix(f, "urn:uuid:"))} {
							if strings.HasPrefix(f, "urn:uuid:") && cs != f {
								cs = "urn:uuid:" + cs
							}
							n++
							v := meta.UUID{1, 2, 3}
							if err := v.UnmarshalText([]byte(cs)); err != nil || v != u {
								fs.add("UnmarshalText(form)!=v", fmt.Sprintf("%q -> %x err=%v", cs, v[:], err))
							}
							if meta.UUIDFromString(cs) != u {
								fs.add("UUIDFromString(form)!=v", cs)
							}
						}
					}
					b, _ := u.MarshalBinary()
					var v meta.UUID
					if err := v.UnmarshalBinary(b); err != nil || v != u {
						fs.add("binary-roundtrip", canon)
					}
					if w, err := meta.UUIDFromBytes(u.Bytes()); err != nil || w != u {
						fs.add("UUIDFromBytes", canon)
					}
					// single-character corruption of each form must give an error or a value, never a panic
					for _, f := range forms {
						bb := []byte(f)
						for k := range bb {
							old := bb[k]
							for _, c := range []byte{'g', '-', '{', 0, 0xff, 'G'} {
								bb[k] = c
								var w meta.UUID
								w.UnmarshalText(bb)
								n++
							}
							bb[k] = old
						}
					}
					for L := 0; L <= 46; L++ {
						var w meta.UUID
						w.UnmarshalText(bytes.Repeat([]byte{'a'}, L))
						w.UnmarshalText(bytes.Repeat([]byte{'-'}, L))
						w.UnmarshalBinary(make([]byte, L))
					}
				})
				if pi != nil {
					fs.add(pi.Signature(), fmt.Sprintf("%x: %s", u[:], pi.Value))
				}
			}
			x.Bulk = int64(n)
			x.Outcome = "uuid"
			fs.flush(x, n)
		case 1: // hash Encode/Decode
			fs := newFailSet("imagehash.Encode/Decode")
			n := 0
			for _, w := range hw {
				pi := mc.Guard(func() {
					n++
					var b [8]byte
					imagehash.PHash64(w).Encode(b[:])
					var v imagehash.PHash64 = 5
					v.Decode(b[:])
					if uint64(v) != w {
						fs.add("PHash64.Decode(Encode(v))!=v", fmt.Sprintf("%016x", w))
					}
					for k := 0; k < 8; k++ {
						if b[k] != byte(w>>(8*uint(k))) {
							fs.add("PHash64.Encode-not-little-endian", fmt.Sprintf("%016x", w))
							break
						}
					}
					for pos := 0; pos < 4; pos++ {
						var p imagehash.PHash256
						p[pos] = w
						p[(pos+1)%4] = ^w
						var bb [32]byte
						p.Encode(bb[:])
						q := imagehash.PHash256{9, 9, 9, 9}
						q.Decode(bb[:])
						if q != p {
							fs.add("PHash256.Decode(Encode(v))!=v", fmt.Sprintf("%v", p))
						}
					}
				})
				if pi != nil {
					fs.add(pi.Signature(), pi.Value)
				}
			}
			// decoders on short input (totality): lengths 0..40
			for L := 0; L <= 40; L++ {
				src := make([]byte, L)
				pi := mc.Guard(func() { var v imagehash.PHash64; v.Decode(src) })
				if pi != nil {
					fs.add(pi.Signature(), fmt.Sprintf("PHash64.Decode(src of %d bytes): %s", L, pi.Value))
				}
				pi = mc.Guard(func() { var v imagehash.PHash256; v.Decode(src) })
				if pi != nil {
					fs.add(pi.Signature(), fmt.Sprintf("PHash256.Decode(src of %d bytes): %s", L, pi.Value))
				}
				n += 2
			}
			x.Bulk = int64(n)
			x.Outcome = "hash-codec"
			fs.flush(x, n)
		case 2: // encoding/json on a struct holding every type
			fs := newFailSet("encoding/json")
			n := 0
			vals := []everything{}
			for i := 0; i < 24; i++ {
				e := everything{IT: imagetype.ImageType(i), FL: meta.FocalLength(float32(i) * 12.25), AP: meta.Aperture(float32(float64(100+70*i) / 100)),
					EB: meta.NewExposureBias(int16(i-12), int16(i%7+1)), MM: meta.MeteringMode(i % 7), EM: meta.ExposureMode(i % 3),
					EP: meta.ExposureProgram(i % 10), FLa: meta.Flash(i), OR: meta.Orientation(i % 9), CO: meta.Compression(i),
					DI: meta.Dimensions{Width: uint32(i * 1000), Height: uint32(i * 7)}, UU: uv[i%len(uv)], PH: imagehash.PHash64(hw[i]),
					P2: imagehash.PHash256{hw[i], hw[i+1], hw[i+2], hw[i+3]}, AH: imagehash.Ahash(hw[i+5]),
					CD: canon.ContinuousDrive(i % 11), FM: canon.FocusMode(i % 7), FD: canon.FocusDistance{int16(i), int16(-i)}}
				if i == 23 {
					e.MM = 255
				}
				vals = append(vals, e)
			}
			for _, e := range vals {
				pi := mc.Guard(func() {
					n++
					b, err := json.Marshal(e)
					if err != nil {
						fs.add("json.Marshal-error", err.Error())
						return
					}
					var d everything
					if err := json.Unmarshal(b, &d); err != nil {
						fs.add("json.Unmarshal-error", fmt.Sprintf("%s: %v", b, err))
						return
					}
					if d != e {
						fs.add("json-roundtrip", fmt.Sprintf("%s\n got %+v\nwant %+v", b, d, e))
					}
				})
				if pi != nil {
					fs.add(pi.Signature(), pi.Value)
				}
			}
			x.Bulk = int64(n)
			x.Outcome = "json"
			fs.flush(x, n)
		case 3: // distances are part of C19; here: Dimensions helpers are total
			fs := newFailSet("meta.Dimensions")
			dm := []uint32{0, 1, 2, 255, 65535, 65536, 1<<32 - 1}
			n := 0
			for _, w := range dm {
				for _, h := range dm {
					pi := mc.Guard(func() {
						n++
						d := meta.NewDimensions(w, h)
						_ = d.String()
						_ = d.AspectRatio()
						_ = d.Orientation()
						ww, hh := d.Size()
						if w != 0 && h != 0 && (ww != w || hh != h) {
							fs.add("Size", fmt.Sprint(w, h))
						}
					})
					if pi != nil {
						fs.add(pi.Signature(), pi.Value)
					}
				}
			}
			x.Bulk = int64(n)
			x.Outcome = "dimensions"
			fs.flush(x, n)
		}
	}
}

// float32 idempotence over the whole 2^32 domain (thorough) or a strided subset (quick)
func c16FloatSweep(stride uint32) mc.Harness {
	const chunks = 1024
	return func(x *mc.Exec) {
		which := x.All("type", 2)
		ch := uint64(x.All("chunk", chunks))
		lo, hi := ch<<32/chunks, (ch+1)<<32/chunks
		name := []string{"meta.FocalLength", "meta.Aperture"}[which]
		fs := newFailSet(name + ".text-idempotence")
		var n int64
		for b := lo; b < hi; b += uint64(stride) {
			bits := uint32(b)
			f := math.Float32frombits(bits)
			n++
			pi := mc.Guard(func() {
				if which == 0 {
					v := meta.FocalLength(f)
					t, _ := v.MarshalText()
					var w meta.FocalLength
					if err := w.UnmarshalText(t); err != nil {
						if !math.IsNaN(float64(f)) && !math.IsInf(float64(f), 0) {
							fs.add("UnmarshalText(MarshalText(v))-error", fmt.Sprintf("bits %08x %q %v", bits, t, err))
						}
						return
					}
					t2, _ := w.MarshalText()
					if !bytes.Equal(t, t2) {
						fs.add("Marshal(Unmarshal(Marshal(v)))!=Marshal(v)", fmt.Sprintf("bits %08x %q -> %q", bits, t, t2))
					}
				} else {
					v := meta.Aperture(f)
					t, _ := v.MarshalText()
					var w meta.Aperture
					if err := w.UnmarshalText(t); err != nil {
						if !math.IsNaN(float64(f)) && !math.IsInf(float64(f), 0) {
							fs.add("UnmarshalText(MarshalText(v))-error", fmt.Sprintf("bits %08x %q %v", bits, t, err))
						}
						return
					}
					t2, _ := w.MarshalText()
					if !bytes.Equal(t, t2) {
						fs.add("Marshal(Unmarshal(Marshal(v)))!=Marshal(v)", fmt.Sprintf("bits %08x %q -> %q", bits, t, t2))
					}
					_ = v.String()
				}
			})
			if pi != nil {
				fs.add(pi.Signature(), fmt.Sprintf("bits %08x: %s", bits, pi.Value))
			}
		}
		x.Bulk = n
		x.Outcome = name
		fs.flush(x, int(n))
	}
}

func init() {
	register(&mc.Check{
		Property: "C16",
		Spaces: func(tier string) []mc.Space {
			maxLen, stride := 4, uint32(4099)
			if tier == "thorough" {
				maxLen, stride = 6, 1
			}
			return []mc.Space{
				{Name: "msgpack", H: c16MsgpHarness(binCodecs()), NoLevels: true,
					Rule: "per type: every value of the 2^8/2^16 domain (boundary menus and bit walks for floats, 64-256-bit values): MarshalMsg/UnmarshalMsg, EncodeMsg/DecodeMsg into fresh and dirty destinations, Msgsize bound, every prefix, all 1-byte substitutions, all byte strings of length <=2"},
				{Name: "text", H: c16TextHarness(tier), NoLevels: true,
					Rule: "per type: text/JSON round trip of every documented member, idempotence for every value, all 2^16 ExposureBias encodings, k/100 grid for floats"},
				{Name: "text-totality", H: c16TotalityHarness(tier, maxLen), NoLevels: true,
					Rule: fmt.Sprintf("every text decoder on every string of length <= %d over the 16-symbol alphabet %q, and on 27 numbers at and around 2^7..2^64 alone, signed, with unit / fraction suffixes and as every pair a/b and a.b", maxLen, textAlphabet)},
				{Name: "uuid-hash-json", H: c16MiscHarness(), NoLevels: true,
					Rule: "UUID: 4 text forms x braces/urn x case for pattern and bit-walk values, corruption totality; hash Encode/Decode for bit walks and source lengths 0..40; encoding/json of a struct holding every type"},
				{Name: "float32-sweep", H: c16FloatSweep(stride), NoLevels: true,
					Rule: fmt.Sprintf("FocalLength/Aperture text idempotence for float32 bit patterns with stride %d (1 = all 2^32)", stride)},
			}
		},
		Assumptions: []string{
			"valid values: documented enum members; floats k/100 up to 65536 (ulp < 0.005); all values for binary forms",
			"ExposureTime offers only a marshaller, so only its totality and format are checked",
			"Encode into a too-short destination is the caller's contract (like binary.PutUint64) and is not judged; Decode of short sources is judged (a decoder must be total)",
		},
	})
}
