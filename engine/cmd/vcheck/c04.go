package main

// C04 — a result depends only on the bytes (pixels) of that call; a returned
// result is never altered by later calls.
//
// Explicit-state breadth-first search over API histories.  A state is the
// canonical content of the library's persistent state (every pooled object of
// every sync.Pool, through the vsync shim; the time-zone cache through the
// verif hook).  A transition calls a real entry point on an input of a fixed
// residue alphabet with a pool answer (most recent / oldest / New), or poisons
// the pooled pointer-free objects.  Live objects are not cloned: a state is
// re-established by resetting to pristine and replaying its shortest history.
// In every state every victim call must return what it returns on pristine
// state, and every returned result must survive poisoning of the pools.

import (
	"bytes"
	"encoding/binary"
	"fmt"
	"image"
	"io"
	"math"
	"os"
	"reflect"
	"runtime/debug"
	"sort"
	"strings"
	"unsafe"

	"verif/envio"
	"verif/gen"
	"verif/mc"

	"github.com/evanoberholster/imagemeta"
	"github.com/evanoberholster/imagemeta/exif2"
	"github.com/evanoberholster/imagemeta/verifshim/vsync"
	"github.com/evanoberholster/imagemeta/xmp"
)

// ---- canonical state ----

func pointerFree(t reflect.Type) bool {
	switch t.Kind() {
	case reflect.Bool, reflect.Int, reflect.Int8, reflect.Int16, reflect.Int32, reflect.Int64,
		reflect.Uint, reflect.Uint8, reflect.Uint16, reflect.Uint32, reflect.Uint64, reflect.Uintptr,
		reflect.Float32, reflect.Float64, reflect.Complex64, reflect.Complex128:
		return true
	case reflect.Array:
		return pointerFree(t.Elem())
	case reflect.Struct:
		for i := 0; i < t.NumField(); i++ {
			if !pointerFree(t.Field(i).Type) {
				return false
			}
		}
		return true
	}
	return false
}

// rawBytes returns the memory of the object a pooled pointer points to, when
// its type is pointer-free (exif2's *buffer); nil otherwise.
func rawBytes(it interface{}) []byte {
	v := reflect.ValueOf(it)
	if v.Kind() != reflect.Ptr || v.IsNil() {
		return nil
	}
	et := v.Type().Elem()
	if !pointerFree(et) || et.Size() == 0 {
		return nil
	}
	return unsafe.Slice((*byte)(v.UnsafePointer()), int(et.Size()))
}

func fnvAdd(h uint64, b []byte) uint64 {
	for _, c := range b {
		h ^= uint64(c)
		h *= 1099511628211
	}
	return h
}

// stateKey hashes the canonical form of the persistent state.
func stateKey() (key uint64, desc string) {
	h := uint64(14695981039346656037)
	nObj := 0
	for pi, p := range vsync.Pools() {
		items := p.Items()
		h = fnvAdd(h, []byte{byte(pi), byte(len(items)), 0xfe})
		for _, it := range items {
			nObj++
			switch t := it.(type) {
			case *[]float64:
				for _, f := range *t {
					var b [8]byte
					binary.LittleEndian.PutUint64(b[:], math.Float64bits(f))
					h = fnvAdd(h, b[:])
				}
			case *[]float32:
				for _, f := range *t {
					var b [4]byte
					binary.LittleEndian.PutUint32(b[:], math.Float32bits(f))
					h = fnvAdd(h, b[:])
				}
			default:
				if rb := rawBytes(it); rb != nil {
					h = fnvAdd(h, rb)
				} else {
					h = fnvAdd(h, []byte("opaque")) // *bufio.Reader: Reset discards every observable field
				}
			}
		}
	}
	tz := exif2.VerifTimeZoneCache()
	keys := make([]int, 0, len(tz))
	for k := range tz {
		keys = append(keys, int(k))
	}
	sort.Ints(keys)
	for _, k := range keys {
		h = fnvAdd(h, []byte(fmt.Sprintf("%d=%s;", k, tz[int32(k)])))
	}
	return h, fmt.Sprintf("%d pooled objects, %d cached zones", nObj, len(tz))
}

// poison overwrites every pooled pointer-free object and pixel slice.
func poisonPools(pat int) {
	for _, p := range vsync.Pools() {
		for _, it := range p.Items() {
			switch t := it.(type) {
			case *[]float64:
				for i := range *t {
					(*t)[i] = []float64{0, math.NaN(), -1e300, 12345.678}[pat]
				}
			case *[]float32:
				for i := range *t {
					(*t)[i] = []float32{0, float32(math.NaN()), -1e30, 12345.678}[pat]
				}
			default:
				rb := rawBytes(it)
				for i := range rb {
					switch pat {
					case 0:
						rb[i] = 0x00
					case 1:
						rb[i] = 0xFF
					case 2:
						rb[i] = 0xA5
					case 3:
						rb[i] = lcgByte(77, i, 3) // plausible-looking garbage: small offsets, counts, types
						if i%4 >= 2 {
							rb[i] = 0
						}
					}
				}
			}
		}
	}
}

// ---- residue alphabet ----

type c04Op struct {
	name string
	run  func()
}

func tiffWithOffset(off string, bo binary.ByteOrder) []byte {
	r := gen.MinimalRecord()
	r.Entries = append(r.Entries,
		gen.Entry{Dir: gen.DirIFD0, Tag: 0x0132, Name: "DateTime", V: gen.S("2023:06:15 12:34:56")},
		gen.Entry{Dir: gen.DirExif, Tag: 0x9010, Name: "OffsetTime", V: gen.S(off)},
		gen.Entry{Dir: gen.DirExif, Tag: 0x9003, Name: "DateTimeOriginal", V: gen.S("2023:06:15 12:34:50")},
		gen.Entry{Dir: gen.DirExif, Tag: 0x9011, Name: "OffsetTimeOriginal", V: gen.S(off)},
	)
	l := gen.CanonicalLayout()
	l.Trailing = 64
	return gen.EncodeTIFF(r, l, bo, gen.AllDirs).B
}

var c04OpsCache []c04Op

// c04OtherContents runs the preview / CR3 / XMP entry points on inputs whose contents differ from every seed's
var c04OtherContents func()

func c04Ops() []c04Op {
	if c04OpsCache != nil {
		return c04OpsCache
	}
	II, MM := binary.LittleEndian, binary.BigEndian
	byName := map[string][]byte{}
	for _, s := range seeds() {
		byName[s.name] = s.doc.B
	}
	dec := func(b []byte) func() {
		return func() { mc.Guard(func() { imagemeta.Decode(bytes.NewReader(b)) }) }
	}
	var ops []c04Op
	add := func(name string, f func()) { ops = append(ops, c04Op{name, f}) }
	richII, richMM := byName["tiff-rich-II"], byName["tiff-rich-MM"]
	add("Decode(rich TIFF II)", dec(richII))
	add("Decode(rich TIFF MM)", dec(richMM))
	add("Decode(rich TIFF II cut at 60%: error path)", dec(richII[:len(richII)*6/10]))
	add("exif2.Parse(rich TIFF II) (unbuffered)", func() { mc.Guard(func() { exif2.Parse(bytes.NewReader(richII)) }) })
	add("exif2.Parse(rich TIFF cut inside a value)", func() { mc.Guard(func() { exif2.Parse(bytes.NewReader(richII[:len(richII)-150])) }) })
	for _, off := range []string{"+02:00", "+01:60", "-00:00", "+00:00", "-09:30"} {
		add("Decode(TIFF OffsetTime "+off+")", dec(tiffWithOffset(off, II)))
	}
	add("Decode(PNG: recognised type without a decoder behind Decode)", dec(byName["png-rich-MM"]))
	add("Decode(GIF header: recognised, unsupported) + Decode(unrecognised bytes)", func() {
		dec([]byte("GIF89a\x10\x00\x10\x00\x80\x00\x00\x00\x00\x00\xff\xff\xff,\x00\x00\x00\x00\x10\x00\x10\x00\x00\x02\x0e\x84\x8f\xa9\xcb\xed\x0f\xa3\x9c\xb4\xda\x8b\xb3\x3e\x05\x00;"))()
		dec(bytes.Repeat([]byte("not an image. "), 20))()
	})
	add("DecodeJPEG(rich)", func() { mc.Guard(func() { imagemeta.DecodeJPEG(bytes.NewReader(byName["jpeg-rich-II"])) }) })
	add("DecodePng(rich)", func() { mc.Guard(func() { imagemeta.DecodePng(bytes.NewReader(byName["png-rich-MM"])) }) })
	add("DecodeCR3(rich)", func() { mc.Guard(func() { imagemeta.DecodeCR3(bytes.NewReader(byName["cr3-rich-II"])) }) })
	add("DecodeHeif(rich)", func() { mc.Guard(func() { imagemeta.DecodeHeif(bytes.NewReader(byName["heif-rich-MM"])) }) })
	add("PreviewCR3", func() { mc.Guard(func() { imagemeta.PreviewCR3(bytes.NewReader(byName["cr3-rich-II"])) }) })
	{ // other content through the same entry points: a result that aliases recycled memory shows only when the memory is refilled with something else
		p := gen.CR3FromRecord(gen.MinimalRecord(), gen.CanonicalLayout(), MM)
		p.Preview = append([]byte("\xff\xd8"), pattern(3000, 'Q')...)
		p.XPacket = []byte("<x:xmpmeta xmlns:x=\"adobe:ns:meta/\"><rdf:RDF xmlns:rdf=\"http://www.w3.org/1999/02/22-rdf-syntax-ns#\"><rdf:Description xmlns:xmp=\"http://ns.adobe.com/xap/1.0/\" xmp:Rating=\"1\" xmp:Label=\"another packet\"/></rdf:RDF></x:xmpmeta>")
		other := gen.EncodeBoxes(gen.CR3(p, 0)).B
		c04OtherContents = func() {
			mc.Guard(func() { imagemeta.PreviewCR3(bytes.NewReader(other)) })
			mc.Guard(func() { imagemeta.DecodeCR3(bytes.NewReader(other)) })
			mc.Guard(func() { xmp.ParseXmp(bytes.NewReader(p.XPacket)) })
			mc.Guard(func() { xmp.ParseXmp(bytes.NewReader(byName["xmp-dense-tokens"])) })
		}
		add("PreviewCR3 + DecodeCR3 + ParseXmp(other contents)", c04OtherContents)
	}
	runEP := func(name string, data []byte) func() {
		for i := range entryPoints {
			if entryPoints[i].name == name {
				e := &entryPoints[i]
				return func() { mc.Guard(func() { e.run(envio.New(data)) }) }
			}
		}
		panic(mc.HarnessError{Msg: "c04: no entry point " + name})
	}
	add("jpeg.ScanJPEG(plain reader, library callbacks)", runEP("jpeg.ScanJPEG", byName["jpeg-rich-II"]))
	add("isobmff.Reader driven directly (CR3)", runEP("isobmff.Reader", byName["cr3-rich-II"]))
	add("isobmff.Reader driven directly (item-based HEIC)", runEP("isobmff.Reader", byName["heic-items-min-II"]))
	add("tiff.ScanTiffHeader + imagetype.Scan", func() {
		runEP("tiff.ScanTiffHeader", byName["heif-rich-MM"])()
		runEP("imagetype.Scan", byName["jpeg-min-MM"])()
	})
	add("ParseXmp(sidecar)", func() { mc.Guard(func() { xmp.ParseXmp(bytes.NewReader(byName["xmp-sidecar"])) }) })
	cs := contents(64, 8)
	imgA := buildImage(kGray, 0, 64, cs[20])
	imgB := buildImage(kYCbCr, 0, 64, cs[len(cs)-1])
	imgC := buildImage(kNRGBAHoles, 0, 256, contents(256, 16)[40])
	add("NewPHash64+Alt(image A)", func() { mc.Guard(func() { hashSizes[0].primary(imgA); hashSizes[0].alt(imgA) }) })
	add("NewPHash64+Alt(image B, YCbCr)", func() { mc.Guard(func() { hashSizes[0].primary(imgB); hashSizes[0].alt(imgB) }) })
	add("NewPHash256+Alt(image C)", func() { mc.Guard(func() { hashSizes[1].primary(imgC); hashSizes[1].alt(imgC) }) })
	wrong := image.NewGray(image.Rect(0, 0, 72, 64))
	add("NewPHash*(wrong size, nil)", func() {
		mc.Guard(func() { hashSizes[0].primary(wrong); hashSizes[0].alt(wrong); hashSizes[1].primary(wrong) })
		mc.Guard(func() { hashSizes[0].primary(nil) })
	})
	for pat := 0; pat < 4; pat++ {
		pat := pat
		add(fmt.Sprintf("poison pools (pattern %d)", pat), func() { poisonPools(pat) })
	}
	_ = MM
	c04OpsCache = ops
	return ops
}

const c04Answers = 3 // pool answer policy during an op: most recent, oldest, New

func c04Apply(step int) {
	ops := c04Ops()
	op, ans := step/c04Answers, step%c04Answers
	switch ans {
	case 0:
		vsync.Chooser = nil
	case 1:
		vsync.Chooser = func(p *vsync.Pool, n int) int {
			if n == 0 {
				return 0
			}
			return n - 1
		}
	case 2:
		vsync.Chooser = func(p *vsync.Pool, n int) int { return n }
	}
	ops[op].run()
	vsync.Chooser = nil
}

func c04StepName(step int) string {
	return c04Ops()[step/c04Answers].name + []string{"", " [pool answers: oldest]", " [pool answers: New]"}[step%c04Answers]
}

func c04Replay(hist []int) {
	pristine()
	defaultLogger()
	for _, s := range hist {
		c04Apply(s)
	}
}

type c04State struct {
	hist []int
	key  uint64
}

var c04BFSCache = map[int]struct {
	states []c04State
	edges  int
}{}

// c04BFS explores histories breadth-first up to depth, deduplicating by canonical state.
func c04BFS(depth int) ([]c04State, int) {
	if c, ok := c04BFSCache[depth]; ok {
		return c.states, c.edges
	}
	nSteps := len(c04Ops()) * c04Answers
	c04Replay(nil)
	k0, _ := stateKey()
	seen := map[uint64]bool{k0: true}
	states := []c04State{{nil, k0}}
	frontier := []c04State{{nil, k0}}
	edges := 0
	for d := 0; d < depth; d++ {
		var next []c04State
		for _, st := range frontier {
			for s := 0; s < nSteps; s++ {
				h := append(append([]int{}, st.hist...), s)
				c04Replay(h)
				edges++
				k, _ := stateKey()
				if !seen[k] {
					seen[k] = true
					ns := c04State{h, k}
					states = append(states, ns)
					next = append(next, ns)
				}
			}
		}
		frontier = next
	}
	pristine()
	c04BFSCache[depth] = struct {
		states []c04State
		edges  int
	}{states, edges}
	return states, edges
}

// ---- victims ----

type c04Victim struct {
	what  string
	data  []byte
	entry int
	run   func() string // set for victims that are not one entry point on one input
}

// reentrantSource delivers b and, inside its at-th Read, runs another complete call:
// a decode started while another decode is in progress on the same goroutine
// (a reader layered on a file that is itself identified by decoding).
type reentrantSource struct {
	r     *bytes.Reader
	reads int
	at    int
	inner func() string
	out   string
}

func (s *reentrantSource) Read(p []byte) (int, error) {
	s.reads++
	if s.reads == s.at {
		s.out = s.inner()
	}
	return s.r.Read(p)
}
func (s *reentrantSource) Seek(o int64, w int) (int64, error) { return s.r.Seek(o, w) }

func c04Reentrant() []c04Victim {
	by := map[string][]byte{}
	for _, s := range seeds() {
		by[s.name] = s.doc.B
	}
	type call struct {
		name string
		f    func(r io.ReadSeeker) string
		in   string
	}
	calls := []call{
		{"Decode(tiff-rich-II)", func(r io.ReadSeeker) string { return exifOutcome(imagemeta.Decode(r)) }, "tiff-rich-II"},
		{"Decode(jpeg-rich-II)", func(r io.ReadSeeker) string { return exifOutcome(imagemeta.Decode(r)) }, "jpeg-rich-II"},
		{"DecodeCR3(cr3-rich-II)", func(r io.ReadSeeker) string { return exifOutcome(imagemeta.DecodeCR3(r)) }, "cr3-rich-II"},
		{"DecodePng(png-rich-MM)", func(r io.ReadSeeker) string { return exifOutcome(imagemeta.DecodePng(r)) }, "png-rich-MM"},
		{"exif2.Parse(tiff-rich-MM)", func(r io.ReadSeeker) string { return exifOutcome(exif2.Parse(r)) }, "tiff-rich-MM"},
	}
	var out []c04Victim
	for _, o := range calls {
		for _, in := range calls {
			for _, at := range []int{1, 2, 3} {
				o, in, at := o, in, at
				out = append(out, c04Victim{what: fmt.Sprintf("%s whose source runs %s inside its Read number %d", o.name, in.name, at), entry: -1,
					run: func() string {
						src := &reentrantSource{r: bytes.NewReader(by[o.in]), at: at, inner: func() string { return in.f(bytes.NewReader(by[in.in])) }}
						res := o.f(src)
						return "outer: " + res + " inner: " + src.out
					}})
			}
		}
	}
	return out
}

type scriptChooser struct {
	field, value int
	menuLen      int
}

func (s *scriptChooser) Choose(label string, n int) int {
	if s.field < n {
		f := s.field
		s.field = 1 << 30 // only the first malformation
		return f
	}
	return 0
}
func (s *scriptChooser) All(label string, n int) int {
	s.menuLen = n
	if s.value < n {
		return s.value
	}
	return 0
}

// jpegStructures: the marker-structure seeds (seeds.go) through the three JPEG entry points.
func jpegStructures() []c04Victim {
	var eps []int
	for i := range entryPoints {
		switch entryPoints[i].name {
		case "imagemeta.Decode", "imagemeta.DecodeJPEG", "jpeg.ScanJPEG":
			eps = append(eps, i)
		}
	}
	var out []c04Victim
	for _, sd := range jpegStructureSeeds() {
		for _, e := range eps {
			out = append(out, c04Victim{what: sd.name, data: sd.doc.B, entry: e})
		}
	}
	return out
}

func c04Victims(tier string) []c04Victim {
	var out []c04Victim
	all, gs := seeds(), genSeeds()
	out = append(out, jpegStructures()...)
	for _, p := range seedEntryPairs(all) {
		out = append(out, c04Victim{"seed " + all[p.s].name, all[p.s].doc.B, p.e, nil})
	}
	out = append(out, c04Reentrant()...)
	stride := 7
	if tier == "thorough" {
		stride = 1
	}
	for _, p := range seedEntryPairs(gs) {
		s := gs[p.s]
		if !entryPoints[p.e].alloc { // decoding entry points only: the ones that use pooled scratch state
			continue
		}
		for k := (len(s.doc.B) % stride); k < len(s.doc.B); k += stride {
			out = append(out, c04Victim{fmt.Sprintf("seed %s cut at %d", s.name, k), s.doc.B[:k], p.e, nil})
		}
	}
	// single-field records in degenerate shapes (parsed while the tag buffer is empty)
	dg := degenerateRecords()
	for _, p := range seedEntryPairs(dg) {
		if entryPoints[p.e].alloc {
			out = append(out, c04Victim{"seed " + dg[p.s].name, dg[p.s].doc.B, p.e, nil})
		}
	}
	// ... and every cut of the first shape of each of them, and of a directory that holds embedded values only: the
	// directory, its next-directory offset or the one value is missing while nothing is pending
	emb := gen.EncodeTIFF(&gen.Rec{Entries: []gen.Entry{
		{Dir: gen.DirIFD0, Tag: 0x0100, Name: "ImageWidth", V: gen.Short(4000)},
		{Dir: gen.DirIFD0, Tag: 0x0101, Name: "ImageLength", V: gen.Short(3000)},
		{Dir: gen.DirIFD0, Tag: 0x0112, Name: "Orientation", V: gen.Short(6)}}}, gen.CanonicalLayout(), binary.LittleEndian, gen.AllDirs)
	cutSeeds := []seed{{name: "embedded-values-only-II", kind: "tiff", doc: &gen.Doc{B: emb.B}, gen: true}}
	for _, s := range dg {
		if strings.Contains(s.name, "-0-II") || strings.Contains(s.name, "-0-MM") {
			cutSeeds = append(cutSeeds, s)
		}
	}
	for _, p := range seedEntryPairs(cutSeeds) {
		if !entryPoints[p.e].alloc {
			continue
		}
		b := cutSeeds[p.s].doc.B
		end := len(b)
		if end > 64+8 && p.s > 0 {
			end -= 64 // the trailing filler of the degenerate records
		}
		for k := 8; k < end; k++ {
			out = append(out, c04Victim{fmt.Sprintf("seed %s cut at %d", cutSeeds[p.s].name, k), b[:k], p.e, nil})
		}
	}
	// single-field malformations
	for _, s := range gs {
		if len(s.doc.Fields) == 0 {
			continue
		}
		for fi := 1; fi <= len(s.doc.Fields); fi++ {
			for vi := 0; ; vi++ {
				d := &gen.Doc{B: append([]byte{}, s.doc.B...), Fields: s.doc.Fields}
				sc := &scriptChooser{field: fi, value: vi}
				what := d.Malform(sc, 1)
				if vi >= sc.menuLen {
					break
				}
				if tier != "thorough" && os.Getenv("C04_ALL_MALFORMATIONS") == "" && (fi*31+vi)%3 != 0 {
					continue
				}
				for ei := range entryPoints {
					if entryPoints[ei].alloc && (entryPoints[ei].accepts(s.kind) || ei == 0) {
						out = append(out, c04Victim{fmt.Sprintf("seed %s with %v", s.name, what), d.B, ei, nil})
					}
				}
			}
		}
	}
	return out
}

const c04Chunk = 256

var c04Depth = 1

func c04Harness(tier string, depth int) mc.Harness {
	var states []c04State
	var victims []c04Victim
	prep := func() {
		if states == nil {
			states, _ = c04BFS(depth)
			victims = c04Victims(tier)
		}
	}
	return func(x *mc.Exec) {
		prep()
		nch := (len(victims) + c04Chunk - 1) / c04Chunk
		ch := x.All("victim-chunk", nch)
		si := x.All("state", len(states))
		st := states[si]
		var hn []string
		for _, s := range st.hist {
			hn = append(hn, c04StepName(s))
		}
		hist := fmt.Sprint(hn)
		x.Note("history", hist)
		x.InputID = st.key ^ uint64(ch)*0x9E3779B97F4A7C15
		x.Trivial = len(st.hist) == 0
		sigs := map[string]bool{}
		n := 0
		for i := ch * c04Chunk; i < (ch+1)*c04Chunk && i < len(victims); i++ {
			v := victims[i]
			var e *roEntry
			var base, res roRun
			if v.run != nil {
				e = &roEntry{name: "re-entrant call"}
				pristine()
				base.pi = mc.Guard(func() { base.outcome = v.run() })
				c04Replay(st.hist)
				res.pi = mc.Guard(func() { res.outcome = v.run() })
			} else {
				e = &entryPoints[v.entry]
				pristine()
				base = runEntry(e, envio.New(v.data), false)
				c04Replay(st.hist)
				res = runEntry(e, envio.New(v.data), false)
			}
			n++
			bs, rs := base.outcome, res.outcome
			if base.pi != nil {
				bs = "PANIC " + base.pi.Signature()
			}
			if res.pi != nil {
				rs = "PANIC " + res.pi.Signature()
			}
			if bs != rs {
				last := "pristine"
				if len(st.hist) > 0 {
					last = c04Ops()[st.hist[len(st.hist)-1]/c04Answers].name
				}
				kind := "history|" + last + "|" + e.name
				if !sigs[kind] {
					sigs[kind] = true
					x.Fail(kind, fmt.Sprintf("%s on %s: after history %s the call returns %s ; on pristine state it returns %s", e.name, v.what, hist, truncStr(rs, 500), truncStr(bs, 500)),
						map[string]string{"history": hist, "entry": e.name, "case": v.what, "input_hex": hexInput(v.data)})
				}
			}
		}
		x.Bulk = int64(n) - 1
		x.Outcome = fmt.Sprintf("s%d", si%8)
	}
}

// ---- returned results are never altered later ----

type c04Held struct {
	name string
	snap func() string
}

func c04Aliasing(x *mc.Exec) {
	debug.SetPanicOnFault(true)
	all := seeds()
	si := x.All("seed", len(all))
	later := x.All("later-activity", 6)
	s := all[si]
	pristine()
	defaultLogger()
	x.InputID = hashBytes([]byte(fmt.Sprint(s.name, later, "alias")))
	x.Outcome = s.kind
	var held []c04Held
	hold := func(name string, snap func() string) { held = append(held, c04Held{name, snap}) }
	// obtain results and keep the live objects
	mc.Guard(func() {
		e, err := imagemeta.Decode(bytes.NewReader(s.doc.B))
		hold("imagemeta.Decode", func() string { return exifOutcome(e, err) })
	})
	mc.Guard(func() {
		e, err := exif2.Parse(bytes.NewReader(s.doc.B))
		hold("exif2.Parse", func() string { return exifOutcome(e, err) })
	})
	switch s.kind {
	case "png":
		mc.Guard(func() {
			e, err := imagemeta.DecodePng(bytes.NewReader(s.doc.B))
			hold("imagemeta.DecodePng", func() string { return exifOutcome(e, err) })
		})
	case "cr3":
		mc.Guard(func() {
			b, err := imagemeta.PreviewCR3(bytes.NewReader(s.doc.B))
			hold("imagemeta.PreviewCR3", func() string { return fmt.Sprintf("%x|%v", b, err) })
		})
	case "xmp", "jpeg":
		mc.Guard(func() {
			v, err := xmp.ParseXmp(bytes.NewReader(s.doc.B))
			hold("xmp.ParseXmp", func() string { return fmt.Sprintf("%+v|%v", v, err) })
		})
	}
	before := make([]string, len(held))
	for i, h := range held {
		before[i] = h.snap()
	}
	// later activity
	ops := c04Ops()
	switch later {
	case 0, 1, 2, 3:
		poisonPools(later)
	case 4:
		for i := range ops {
			c04Apply(i * c04Answers)
		}
	case 5:
		for i := len(ops) - 1; i >= 0; i-- {
			c04Apply(i*c04Answers + 1)
		}
		poisonPools(2)
	}
	if later >= 4 {
		c04OtherContents() // last: whatever memory the entry points recycle now holds other contents
	}
	for i, h := range held {
		var after string
		if pi := mc.Guard(func() { after = h.snap() }); pi != nil {
			after = "PANIC " + pi.Value
		}
		if after != before[i] {
			x.Fail("aliasing|"+h.name, fmt.Sprintf("a result returned by %s for seed %s changed after later activity %d: was %s now %s", h.name, s.name, later, truncStr(before[i], 300), truncStr(after, 300)),
				map[string]string{"seed": s.name, "input_hex": hexInput(s.doc.B)})
		}
	}
	x.Bulk = int64(len(held))
}

// ---- hashing victims ----

func c04Hashing(depth int) mc.Harness {
	var states []c04State
	type hv struct {
		name string
		img  image.Image
		size int
	}
	var vs []hv
	prep := func() {
		if states != nil {
			return
		}
		states, _ = c04BFS(depth)
		c64, c256 := contents(64, 8), contents(256, 16)
		for _, k := range []int{kGray, kYCbCr, kNRGBAHoles, kRGBA, kRGBAHoles} {
			for _, ci := range []int{0, 2, 5, 40, 131, 260, len(c64) - 1} {
				vs = append(vs, hv{fmt.Sprintf("64x64 %s %s", kindName[k], c64[ci].name), buildImage(k, 0, 64, c64[ci]), 0})
			}
			for _, ci := range []int{0, 7, len(c256) - 2} {
				vs = append(vs, hv{fmt.Sprintf("256x256 %s %s", kindName[k], c256[ci].name), buildImage(k, 0, 256, c256[ci]), 1})
			}
		}
		wrong := []image.Rectangle{image.Rect(0, 0, 63, 64), image.Rect(0, 0, 64, 65), image.Rect(0, 0, 32, 32), image.Rect(0, 0, 255, 256), image.Rect(0, 0, 0, 0)}
		// the right number of pixels in the wrong shape (what fits the pooled buffer is not therefore the right image)
		for _, wh := range [][2]int{{32, 128}, {128, 32}, {16, 256}, {1, 4096}, {4096, 1}, {128, 512}, {512, 128}, {1024, 64}, {64, 1024}, {1, 65536}} {
			wrong = append(wrong, image.Rect(0, 0, wh[0], wh[1]))
		}
		for _, r := range wrong {
			vs = append(vs, hv{fmt.Sprintf("wrong size %v Gray", r), image.NewGray(r), 0}, hv{fmt.Sprintf("wrong size %v Gray (256)", r), image.NewGray(r), 1})
		}
	}
	return func(x *mc.Exec) {
		debug.SetPanicOnFault(true)
		prep()
		vi := x.All("image", len(vs))
		si := x.All("state", len(states))
		st, v := states[si], vs[vi]
		hf := &hashSizes[v.size]
		var hn []string
		for _, s := range st.hist {
			hn = append(hn, c04StepName(s))
		}
		x.InputID = st.key ^ uint64(vi)*0x9E3779B97F4A7C15 ^ 0x4a
		x.Trivial = len(st.hist) == 0
		run := func() string {
			var p, a []bool
			var e1, e2 error
			if pi := mc.Guard(func() { p, e1 = hf.primary(v.img); a, e2 = hf.alt(v.img) }); pi != nil {
				return "PANIC " + pi.Signature()
			}
			return fmt.Sprintf("%s/%v %s/%v", bitsHex(p), e1 != nil, bitsHex(a), e2 != nil)
		}
		pristine()
		base := run()
		c04Replay(st.hist)
		got := run()
		x.Outcome = base[:4]
		if got != base {
			last := "pristine"
			if len(st.hist) > 0 {
				last = c04Ops()[st.hist[len(st.hist)-1]/c04Answers].name
			}
			x.Fail("history|"+last+"|"+hf.name, fmt.Sprintf("%s of %s: after history %v: %s ; on pristine state: %s", hf.name, v.name, hn, got, base), map[string]string{"history": fmt.Sprint(hn)})
		}
	}
}

var _ = io.EOF

func init() {
	var bfsInfo = map[string]interface{}{}
	register(&mc.Check{Property: "C04", Setup: defaultLogger,
		Spaces: func(tier string) []mc.Space {
			depth := 1
			if tier == "thorough" {
				depth = 2
			}
			c04Depth = depth
			return []mc.Space{
				{Name: "histories-x-decoding-victims", H: c04Harness(tier, depth), NoLevels: true, Isolate: true, SplitDepth: 1,
					Rule: fmt.Sprintf("breadth-first search to depth %d over 30 residue operations (decodes of rich/erroring/offset-time inputs through every container entry point, preview, XMP, hashes of valid and invalid images, 4 pool-poisoning patterns) x 3 pool-answer policies, states deduplicated by the canonical content of all pooled objects and of the time-zone cache; in every state every victim (every seed x entry point, cuts of the generated seeds, single-field malformations) must return exactly what it returns on pristine state", depth)},
				{Name: "histories-x-hashing-victims", H: c04Hashing(depth), NoLevels: true, Isolate: true, SplitDepth: 1,
					Rule: "the same states x 50 valid images (5 formats, both hash sizes) and 10 wrong-sized images through the four hash functions"},
				{Name: "returned-results-survive-later-activity", H: c04Aliasing, NoLevels: true, Isolate: true, SplitDepth: 1,
					Rule: "for every seed: results of Decode, exif2.Parse, DecodePng, PreviewCR3, ParseXmp are held, then the pools are poisoned (4 patterns) or every residue operation is run (two orders); the held results must print identically afterwards"},
			}
		},
		Assumptions: []string{
			"persistent state = sync.Pool contents (through the vsync shim) + the time-zone cache (verif hook); *bufio.Reader objects are represented by their count only (Reset discards every observable field: stdlib contract)",
			"successor states are obtained by replaying the shortest history on pristine state plus one operation",
			"poison patterns stand for pool contents that no history of the alphabet produces",
		},
		Extra: func(cov map[string]interface{}) {
			st, edges := c04BFS(c04Depth)
			bfsInfo["depth"] = c04Depth
			bfsInfo["distinct_states"] = len(st)
			bfsInfo["transitions"] = edges
			bfsInfo["operations"] = len(c04Ops()) * c04Answers
			cov["bfs"] = bfsInfo
			cov["states"] = len(st)
			cov["transitions"] = edges
		},
	})
}
