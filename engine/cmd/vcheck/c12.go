package main

// C12 — TIFF header search reports the first TIFF signature at any offset.

import (
	"bufio"
	"bytes"
	"encoding/binary"
	"fmt"
	"io"

	"verif/mc"

	"github.com/evanoberholster/imagemeta/imagetype"
	"github.com/evanoberholster/imagemeta/meta"
	"github.com/evanoberholster/imagemeta/meta/utils"
	"github.com/evanoberholster/imagemeta/tiff"
)

var c12Alphabet = []byte{'I', 'M', '*', 0x00, 'x'}

// refTiffSearch is the naive reference: first index of either signature
// that is followed by at least 28 more bytes.
func refTiffSearch(s []byte) (off int, bo utils.ByteOrder, ifd uint32, ok bool) {
	for i := 0; i+4 <= len(s); i++ {
		le := s[i] == 'I' && s[i+1] == 'I' && s[i+2] == '*' && s[i+3] == 0
		be := s[i] == 'M' && s[i+1] == 'M' && s[i+2] == 0 && s[i+3] == '*'
		if !le && !be {
			continue
		}
		if i+32 > len(s) {
			return 0, 0, 0, false // the first signature lacks its 28 bytes; every later one has fewer
		}
		if le {
			return i, utils.LittleEndian, binary.LittleEndian.Uint32(s[i+4:]), true
		}
		return i, utils.BigEndian, binary.BigEndian.Uint32(s[i+4:]), true
	}
	return 0, 0, 0, false
}

// c12WantType: the header carries the type of the stream's first 24 bytes, or the caller's type (unknown here)
func c12WantType(stream []byte) imagetype.ImageType {
	if len(stream) >= 24 {
		if t, err := imagetype.Buf(append([]byte{}, stream[:24]...)); err == nil {
			return t
		}
	}
	return imagetype.ImageUnknown
}

var c12Offsets = []uint32{8, 0x01020304, 0xFFFFFFFF, 0xFFFFFFFE, 0x80000000, 0, 0xFFFFF000}

func c12Tail(hdr, off, tail int) []byte {
	var b []byte
	var o [4]byte
	if hdr == 0 {
		b = append(b, 'I', 'I', '*', 0)
		binary.LittleEndian.PutUint32(o[:], c12Offsets[off])
	} else {
		b = append(b, 'M', 'M', 0, '*')
		binary.BigEndian.PutUint32(o[:], c12Offsets[off])
	}
	b = append(b, o[:]...)
	switch tail {
	case 0:
		b = append(b, bytes.Repeat([]byte{'x'}, 24)...)
	case 1:
		b = append(b, bytes.Repeat([]byte{'x'}, 23)...) // one byte short
	case 2:
		b = append(b, bytes.Repeat([]byte{'x'}, 4096)...)
	case 3:
		b = append(b, bytes.Repeat([]byte("MM\x00*II*\x00"), 8)...) // later signatures
	case 4:
		// no header at all
		return bytes.Repeat([]byte{'x'}, 40)
	}
	return b
}

const c12Tails = 5

func c12Check(stream []byte, fs *failSet) {
	off, bo, ifd, ok := refTiffSearch(stream)
	show := func() string {
		if len(stream) > 48 {
			return fmt.Sprintf("%q...(%d bytes)", stream[:48], len(stream))
		}
		return fmt.Sprintf("%q", stream)
	}
	br := bufio.NewReaderSize(bytes.NewReader(stream), 4096)
	var h meta.ExifHeader
	var err error
	pi := mc.Guard(func() { h, err = tiff.ScanTiffHeader(br, imagetype.ImageUnknown) })
	if pi != nil {
		fs.add(pi.Signature(), show()+" "+pi.Value)
		return
	}
	if !ok {
		if err != meta.ErrNoExif {
			fs.add("no-signature-but-no-ErrNoExif", fmt.Sprintf("%s -> %+v err=%v", show(), h, err))
		}
	} else {
		switch {
		case err != nil:
			fs.add("signature-present-but-error", fmt.Sprintf("%s want offset %d, got err=%v", show(), off, err))
		case int(h.TiffHeaderOffset) != off:
			fs.add("wrong-offset", fmt.Sprintf("%s want %d got %d", show(), off, h.TiffHeaderOffset))
		case h.ByteOrder != bo:
			fs.add("wrong-byte-order", fmt.Sprintf("%s want %v got %v", show(), bo, h.ByteOrder))
		case h.FirstIfdOffset != ifd:
			fs.add("wrong-first-ifd-offset", fmt.Sprintf("%s want %#x got %#x", show(), ifd, h.FirstIfdOffset))
		case h.ImageType != c12WantType(stream):
			fs.add("wrong-image-type", fmt.Sprintf("%s header at %d: image type %v, the first 24 bytes of the stream say %v", show(), off, h.ImageType, c12WantType(stream)))
		default:
			rest, _ := io.ReadAll(br)
			if !bytes.Equal(rest, stream[off:]) {
				n := len(stream) - len(rest)
				fs.add("stream-not-positioned-at-header", fmt.Sprintf("%s header at %d, reader stands at %d", show(), off, n))
			}
		}
	}
	// unbuffered caller: same answer
	var h2 meta.ExifHeader
	var err2 error
	pi = mc.Guard(func() { h2, err2 = tiff.ScanTiffHeader(bytes.NewReader(stream), imagetype.ImageUnknown) })
	if pi != nil {
		fs.add(pi.Signature(), show()+" (plain reader) "+pi.Value)
	} else if h2 != h || (err2 == nil) != (err == nil) {
		fs.add("plain-reader-differs-from-bufio", show())
	}
}

func init() {
	hShort := func(maxLen int) mc.Harness {
		return func(x *mc.Exec) {
			L := x.All("prefix-length", maxLen+1)
			fixed := 0
			pre := make([]byte, L)
			if L >= 3 {
				fixed = 3
			} else {
				fixed = L
			}
			for i := 0; i < fixed; i++ {
				pre[i] = c12Alphabet[x.All("sym", 5)]
			}
			hdr := x.All("header", 2)
			fs := newFailSet("tiff.ScanTiffHeader")
			var n int64
			var rec func(i int)
			rec = func(i int) {
				if i == L {
					for off := 0; off < 2; off++ {
						for tail := 0; tail < c12Tails; tail++ {
							if tail == 4 && (hdr == 1 || off >= 1) {
								continue
							}
							n++
							c12Check(append(append([]byte{}, pre...), c12Tail(hdr, off, tail)...), fs)
						}
					}
					return
				}
				for _, s := range c12Alphabet {
					pre[i] = s
					rec(i + 1)
				}
			}
			rec(fixed)
			x.Bulk = n - 1
			x.Outcome = fmt.Sprintf("len%d", L)
			x.InputID = hashBytes(append([]byte{byte(L), byte(hdr)}, pre[:fixed]...))
			fs.flush(x, int(n))
		}
	}
	patterns := []string{"I", "M", "IM", "II*", "MM\x00", "II*I", "x", "IIM", "I\x00", "*I"}
	hLong := func(x *mc.Exec) {
		base := []int{4060, 8156}[x.All("window", 2)]
		d := x.All("delta", 80)
		pat := patterns[x.All("pattern", len(patterns))]
		hdr := x.All("header", 2)
		L := base + d
		pre := bytes.Repeat([]byte(pat), L/len(pat)+1)[:L]
		fs := newFailSet("tiff.ScanTiffHeader.long-prefix")
		n := 0
		for off := 0; off < len(c12Offsets); off++ {
			for tail := 0; tail < c12Tails; tail++ {
				n++
				c12Check(append(append([]byte{}, pre...), c12Tail(hdr, off, tail)...), fs)
			}
		}
		x.Bulk = int64(n) - 1
		x.Outcome = "long"
		fs.flush(x, n)
	}
	// every prefix length 0..300 x filler patterns (positions relative to any internal scan window)
	fillers := []string{"x", "\x00", "I", "M", "IM", "MI\x00*", "IM*\x00", "abcdefg", "I*\x00M\x00*"}
	hLen := func(x *mc.Exec) {
		L := x.All("prefix-length", 301)
		fi := x.All("filler", len(fillers))
		hdr := x.All("header", 2)
		pat := fillers[fi]
		pre := bytes.Repeat([]byte(pat), L/len(pat)+1)[:L]
		fs := newFailSet("tiff.ScanTiffHeader.prefix-length")
		n := 0
		for off := 0; off < len(c12Offsets); off++ {
			for tail := 0; tail < c12Tails; tail++ {
				n++
				c12Check(append(append([]byte{}, pre...), c12Tail(hdr, off, tail)...), fs)
			}
		}
		x.Bulk = int64(n) - 1
		x.Outcome = fmt.Sprint(L % 32)
		x.InputID = hashBytes([]byte{byte(L), byte(L >> 8), byte(fi), byte(hdr), 0x12})
		fs.flush(x, n)
	}
	// the header of another format (whole or cut) in front of the TIFF block: the sniffers that run on the
	// first window must not disturb the search
	hnames, hheads := canonicalHeaders()
	hForeign := func(x *mc.Exec) {
		hi := x.All("foreign-header", len(hheads))
		cut := []int{4, 8, 12, 16, 20, 24}[x.All("cut", 6)]
		gap := []int{0, 1, 4, 11}[x.All("gap", 4)]
		hdr := x.All("header", 2)
		pre := append(append([]byte{}, hheads[hi][:cut]...), bytes.Repeat([]byte{'x'}, gap)...)
		fs := newFailSet("tiff.ScanTiffHeader.foreign-header-prefix")
		n := 0
		for off := 0; off < len(c12Offsets); off++ {
			for tail := 0; tail < c12Tails; tail++ {
				n++
				c12Check(append(append([]byte{}, pre...), c12Tail(hdr, off, tail)...), fs)
			}
		}
		x.Bulk = int64(n) - 1
		x.Outcome = hnames[hi]
		x.InputID = hashBytes([]byte{byte(hi), byte(cut), byte(gap), byte(hdr), 0x13})
		fs.flush(x, n)
	}
	// every byte string of length 1..3 as the prefix (marks of other encodings and formats, e.g. byte order marks)
	hBytes := func(x *mc.Exec) {
		L := 1 + x.All("prefix-length", 3)
		b0 := byte(x.All("first-byte", 256))
		hdr := x.All("header", 2)
		fs := newFailSet("tiff.ScanTiffHeader.byte-prefix")
		n := 0
		tailB := c12Tail(hdr, 0, 0)
		stream := append(make([]byte, L), tailB...)
		stream[0] = b0
		rd := bytes.NewReader(nil)
		br := bufio.NewReaderSize(rd, 4096)
		rest := make([]byte, len(stream)+8)
		lean := func() { // c12Check without its allocations: buffered caller only
			off, bo, ifd, ok := refTiffSearch(stream)
			rd.Reset(stream)
			br.Reset(rd)
			var h meta.ExifHeader
			var err error
			if pi := mc.Guard(func() { h, err = tiff.ScanTiffHeader(br, imagetype.ImageUnknown) }); pi != nil {
				fs.add(pi.Signature(), fmt.Sprintf("%q %s", stream[:L+4], pi.Value))
				return
			}
			switch {
			case !ok:
				if err != meta.ErrNoExif {
					fs.add("no-signature-but-no-ErrNoExif", fmt.Sprintf("%q", stream[:L+4]))
				}
			case err != nil:
				fs.add("signature-present-but-error", fmt.Sprintf("%q want offset %d, got err=%v", stream[:L+4], off, err))
			case int(h.TiffHeaderOffset) != off || h.ByteOrder != bo || h.FirstIfdOffset != ifd:
				fs.add("wrong-offset", fmt.Sprintf("%q want %d got %+v", stream[:L+4], off, h))
			default:
				k, _ := io.ReadFull(br, rest)
				if !bytes.Equal(rest[:k], stream[off:]) {
					fs.add("stream-not-positioned-at-header", fmt.Sprintf("%q header at %d, %d bytes follow the search, the first of them %q", stream[:L+4], off, k, rest[:min(k, 8)]))
				}
			}
		}
		var rec func(i int)
		rec = func(i int) {
			if i == L {
				n++
				if L < 3 {
					c12Check(stream, fs)
				} else {
					lean()
				}
				return
			}
			for v := 0; v < 256; v++ {
				stream[i] = byte(v)
				rec(i + 1)
			}
		}
		rec(1)
		x.Bulk = int64(n) - 1
		x.Outcome = fmt.Sprint(L)
		x.InputID = hashBytes([]byte{byte(L), b0, byte(hdr), 0x14})
		fs.flush(x, n)
	}
	// a search may use the caller's own buffered reader; that reader stays the caller's: other searches, whatever
	// reader they are given, neither move it nor feed it another stream
	hAcross := func(x *mc.Exec) {
		mk := func(pre int, hdr int, tail int) []byte {
			return append(bytes.Repeat([]byte{'p'}, pre), c12Tail(hdr, 0, tail)...)
		}
		streams := [][]byte{mk(0, 0, 0), mk(0, 1, 0), mk(5, 0, 2), mk(40, 1, 0), mk(300, 0, 0), bytes.Repeat([]byte("no header here. "), 8)}
		a, b := streams[x.All("first-stream", len(streams))], streams[x.All("second-stream", len(streams))]
		mid := x.All("second-search-through", 3)
		fs := newFailSet("tiff.across-searches")
		pristine()
		type res struct {
			h    meta.ExifHeader
			err  error
			rest []byte
		}
		search := func(r io.Reader) (meta.ExifHeader, error) { return tiff.ScanTiffHeader(r, imagetype.ImageUnknown) }
		// control: stream a alone
		var ctl res
		{
			br := bufio.NewReaderSize(bytes.NewReader(a), 4096)
			ctl.h, ctl.err = search(br)
			ctl.rest, _ = io.ReadAll(br)
		}
		var hbCtl meta.ExifHeader
		var ebCtl error
		hbCtl, ebCtl = search(struct{ io.Reader }{bytes.NewReader(b)})
		pristine()
		var got res
		pi := mc.Guard(func() {
			br := bufio.NewReaderSize(bytes.NewReader(a), 4096)
			got.h, got.err = search(br)
			var hb meta.ExifHeader
			var eb error
			switch mid {
			case 0:
				hb, eb = search(struct{ io.Reader }{bytes.NewReader(b)})
			case 1:
				hb, eb = search(bytes.NewReader(b))
			default:
				hb, eb = search(bufio.NewReaderSize(bytes.NewReader(b), 64))
			}
			if hb != hbCtl || (eb == nil) != (ebCtl == nil) {
				fs.add("second-search-differs-after-a-first-one", fmt.Sprintf("second stream %q...: %+v err=%v ; alone %+v err=%v", b[:16], hb, eb, hbCtl, ebCtl))
			}
			got.rest, _ = io.ReadAll(br)
		})
		if pi != nil {
			fs.add(pi.Signature(), pi.Value)
		} else {
			if got.h != ctl.h || (got.err == nil) != (ctl.err == nil) {
				fs.add("first-search-differs", fmt.Sprintf("%+v err=%v ; alone %+v err=%v", got.h, got.err, ctl.h, ctl.err))
			}
			if !bytes.Equal(got.rest, ctl.rest) {
				fs.add("callers-reader-disturbed-by-a-later-search", fmt.Sprintf("after a search on another stream the caller's reader yields %d bytes starting %q ; without that search %d bytes starting %q", len(got.rest), truncStr(string(got.rest), 24), len(ctl.rest), truncStr(string(ctl.rest), 24)))
			}
		}
		x.InputID = hashBytes(append(append([]byte{byte(mid)}, a...), b...))
		x.Outcome = fmt.Sprint(ctl.err == nil, ebCtl == nil)
		fs.flush(x, 1)
	}
	register(&mc.Check{
		Property: "C12",
		Spaces: func(tier string) []mc.Space {
			maxLen := 7
			if tier == "thorough" {
				maxLen = 10
			}
			return []mc.Space{
				{Name: "short-prefixes", H: hShort(maxLen), NoLevels: true,
					Rule: fmt.Sprintf("every prefix over {I,M,*,0x00,x} of length <= %d x header {II,MM} x first-IFD offset {8, 0x01020304, 0xFFFFFFFF, 0xFFFFFFFE, 0x80000000, 0, 0xFFFFF000} x tail {28 bytes, 27 bytes, 4 KiB, later signatures, no header}; one execution per (length, first 3 symbols, header), the rest enumerated natively", maxLen)},
				{Name: "all-prefix-lengths", H: hLen, NoLevels: true,
					Rule: "every prefix length 0..300 x 9 filler patterns (plain bytes, single letters, mixed marks MI\\0* / IM*\\0, partial signatures) x header x first-IFD offset x tails"},
				{Name: "foreign-header-prefixes", H: hForeign, NoLevels: true,
					Rule: "the canonical header of every other supported format, cut at 4..24 bytes, plus a gap of 0/1/4/11 bytes, in front of the TIFF block (the sniffers that look at the first window must not disturb the search)"},
				{Name: "all-byte-prefixes", H: hBytes, NoLevels: true,
					Rule: "every byte string of length 1, 2 and 3 (all 2^24) in front of each header: offset, byte order, first-IFD offset and the stream position after the search"},
				{Name: "callers-reader-across-searches", H: hAcross, NoLevels: true,
					Rule: "ordered pairs of 6 streams: a search through the caller's bufio.Reader on the first, then a search on the second (plain reader, bytes.Reader, small bufio.Reader), then the rest of the caller's reader is read: both answers and the rest equal those of each stream alone"},
				{Name: "window-boundaries", H: hLong, NoLevels: true,
					Rule: "prefix lengths 4060..4139 and 8156..8235 (bufio window boundaries minus the 32-byte peek) x 10 repeating partial-signature patterns x header x tails"},
			}
		},
		Assumptions: []string{"reference = naive first-index search in c12.go", "locality: a scan step looks at 4 symbols and advances 1 or 2, so every (window, phase) configuration occurs at prefix length <= 6"},
	})
}
