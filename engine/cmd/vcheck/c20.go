package main

// C20 — YCbCr-to-gray conversion is layout-correct and memory-safe for every
// accepted image.
//
// Enumerated: subsampling ratio x rectangle origin x luma stride x plane
// placement against guard pages x plane contents, for 64x64 (and 256x256)
// images whose three planes and whose destination live in guard-page arenas.
// Reference: the documented integer luminance evaluated on the samples the
// image type itself addresses with YOffset/COffset at absolute coordinates.

import (
	"fmt"
	"image"
	"math"
	"os"
	"runtime/debug"
	"sort"

	"verif/guardmem"
	"verif/mc"

	"github.com/evanoberholster/imagemeta/imagehash"
	"github.com/evanoberholster/imagemeta/imagehash/transforms"
	"github.com/evanoberholster/imagemeta/imagehash/transforms32"
)

var c20Ratios = []image.YCbCrSubsampleRatio{
	image.YCbCrSubsampleRatio444, image.YCbCrSubsampleRatio422, image.YCbCrSubsampleRatio420,
	image.YCbCrSubsampleRatio440, image.YCbCrSubsampleRatio411, image.YCbCrSubsampleRatio410,
}

var c20Origins = []image.Point{{0, 0}, {8, 8}, {16, 0}, {3, 5}}
var c20StrideExtra = []int{0, 8, 3}
var c20CStrideExtra = []int{0, 16, 3}

type ycContent struct {
	name string
	f    func(x, y int) (yy, cb, cr uint8) // rectangle-relative luma coordinates; chroma taken at the sample's first luma pixel
}

func c20Contents() []ycContent {
	var cs []ycContent
	lv := []uint8{0, 16, 128, 235, 255}
	for _, a := range lv {
		for _, b := range lv {
			for _, c := range lv {
				a, b, c := a, b, c
				cs = append(cs, ycContent{fmt.Sprintf("constant Y=%d Cb=%d Cr=%d", a, b, c), func(x, y int) (uint8, uint8, uint8) { return a, b, c }})
			}
		}
	}
	cs = append(cs,
		ycContent{"ramps Y=4x Cb=4y Cr=255-4x", func(x, y int) (uint8, uint8, uint8) { return uint8(4 * x), uint8(4 * y), uint8(255 - 4*x) }},
		ycContent{"ramps Y=x+y Cb=255-2y Cr=3x", func(x, y int) (uint8, uint8, uint8) { return uint8(x + y), uint8(255 - 2*y), uint8(3 * x) }},
		ycContent{"distinct value per sample", func(x, y int) (uint8, uint8, uint8) {
			return uint8((x*5 + y*11) % 256), uint8((x*7 + y*13 + 3) % 256), uint8((x*17 + y*19 + 5) % 256)
		}},
		ycContent{"distinct value per sample (2)", func(x, y int) (uint8, uint8, uint8) {
			return uint8((x*x + y) % 256), uint8((x + y*y + 40) % 256), uint8((x*3 ^ y*5) % 256)
		}},
	)
	for lane := 0; lane < 8; lane++ {
		for pol := 0; pol < 2; pol++ {
			lane, pol := lane, pol
			cs = append(cs, ycContent{fmt.Sprintf("lane %d extreme, neighbours opposite (polarity %d)", lane, pol), func(x, y int) (uint8, uint8, uint8) {
				hi, lo := uint8(255), uint8(0)
				if pol == 1 {
					hi, lo = lo, hi
				}
				if x%8 == lane {
					return hi, lo, hi
				}
				return lo, hi, lo
			}})
		}
	}
	for s := uint64(21); s < 25; s++ {
		s := s
		cs = append(cs, ycContent{fmt.Sprintf("fixed noise #%d", s), func(x, y int) (uint8, uint8, uint8) {
			return lcgByte(s, x, y), lcgByte(s+100, x, y), lcgByte(s+200, x, y)
		}})
	}
	return cs
}

type ycImage struct {
	img        *image.YCbCr
	by, bb, br *guardmem.Buf
}

func (m *ycImage) free() {
	m.by.Free()
	m.bb.Free()
	m.br.Free()
}

// buildYCbCr makes an n x n YCbCr image with tight planes in guard arenas.
func buildYCbCr(n int, ratio image.YCbCrSubsampleRatio, org image.Point, strideExtra, cStrideExtra int, endFlush bool, c ycContent) *ycImage {
	r := image.Rectangle{org, org.Add(image.Pt(n, n))}
	probe := &image.YCbCr{SubsampleRatio: ratio, Rect: r, YStride: n + strideExtra}
	// chroma geometry from the image type's own addressing
	var cw int
	switch ratio {
	case image.YCbCrSubsampleRatio444, image.YCbCrSubsampleRatio440:
		cw = n
	case image.YCbCrSubsampleRatio422, image.YCbCrSubsampleRatio420:
		cw = (r.Max.X+1)/2 - r.Min.X/2
	default:
		cw = (r.Max.X+3)/4 - r.Min.X/4
	}
	probe.CStride = cw + cStrideExtra
	if strideExtra != 0 && cStrideExtra == 0 {
		probe.CStride = cw + 1
	}
	maxY, maxC := 0, 0
	for y := r.Min.Y; y < r.Max.Y; y++ {
		for x := r.Min.X; x < r.Max.X; x++ {
			if o := probe.YOffset(x, y); o > maxY {
				maxY = o
			}
			if o := probe.COffset(x, y); o > maxC {
				maxC = o
			}
		}
	}
	m := &ycImage{by: guardmem.Alloc(maxY+1, endFlush, 1), bb: guardmem.Alloc(maxC+1, endFlush, 1), br: guardmem.Alloc(maxC+1, endFlush, 1)}
	probe.Y, probe.Cb, probe.Cr = m.by.Bytes(), m.bb.Bytes(), m.br.Bytes()
	// stride padding holds bytes that would be visibly wrong if used
	for i := range probe.Y {
		probe.Y[i] = 0x77
	}
	for i := range probe.Cb {
		probe.Cb[i], probe.Cr[i] = 0xEE, 0x11
	}
	seen := make([]bool, maxC+1)
	for y := r.Min.Y; y < r.Max.Y; y++ {
		for x := r.Min.X; x < r.Max.X; x++ {
			yy, cb, cr := c.f(x-r.Min.X, y-r.Min.Y)
			probe.Y[probe.YOffset(x, y)] = yy
			if co := probe.COffset(x, y); !seen[co] {
				seen[co] = true
				probe.Cb[co], probe.Cr[co] = cb, cr
			}
		}
	}
	m.img = probe
	return m
}

// c20Ref is the documented luminance at rectangle-relative (x,y).
func c20Ref(m *image.YCbCr) []float64 {
	n := m.Rect.Dx()
	out := make([]float64, n*m.Rect.Dy())
	for y := 0; y < m.Rect.Dy(); y++ {
		for x := 0; x < n; x++ {
			X, Y := m.Rect.Min.X+x, m.Rect.Min.Y+y
			out[y*n+x] = lumYCbCr(m.Y[m.YOffset(X, Y)], m.Cb[m.COffset(X, Y)], m.Cr[m.COffset(X, Y)])
		}
	}
	return out
}

func ratioName(r image.YCbCrSubsampleRatio) string { return r.String()[len("YCbCrSubsampleRatio"):] }

func c20Harness(n int, contents []ycContent, withHash bool) mc.Harness {
	return func(x *mc.Exec) {
		debug.SetPanicOnFault(true)
		ci := x.All("content", len(contents))
		ri := x.All("subsampling", len(c20Ratios))
		oi := x.All("origin", len(c20Origins))
		si := x.All("luma-stride", len(c20StrideExtra))
		csi := x.All("chroma-stride", len(c20CStrideExtra))
		endFlush := x.All("plane-placement", 2) == 1
		dal := x.All("destination-alignment", 3) // the caller's destination slice starts 0, 4 or 16 bytes after a 32-byte boundary
		c := contents[ci]
		where := fmt.Sprintf("%dx%d %s origin %v YStride=w+%d CStride=cw+%d planes %s, destination %d bytes past a 32-byte boundary, %s", n, n, ratioName(c20Ratios[ri]), c20Origins[oi], c20StrideExtra[si], c20CStrideExtra[csi],
			map[bool]string{false: "start-flush", true: "end-flush"}[endFlush], []int{0, 4, 16}[dal], c.name)
		x.Note("image", where)
		x.InputID = hashBytes([]byte{byte(n >> 6), byte(ci), byte(ri), byte(oi), byte(si), byte(csi), b2i(endFlush), byte(dal), 0x20})
		m := buildYCbCr(n, c20Ratios[ri], c20Origins[oi], c20StrideExtra[si], c20CStrideExtra[csi], endFlush, c)
		defer m.free()
		ref := c20Ref(m.img)
		d32 := guardmem.Alloc(4*n*n+32, false, 32)
		d64 := guardmem.Alloc(8*n*n+32, false, 32)
		defer d32.Free()
		defer d64.Free()
		k32, k64 := []int{0, 1, 4}[dal], []int{0, 1, 2}[dal]
		p32, p64 := d32.Float32s()[k32:k32+n*n], d64.Float64s()[k64:k64+n*n]
		fail := func(fn, kind, msg string) {
			x.Fail("mismatch|"+fn+"|"+kind, where+": "+fn+": "+msg, map[string]string{"image": where})
		}
		worst := 0.0
		check := func(fn string, run func(), get func(i int) float64, tol float64) {
			for i := range p32 {
				p32[i] = -12345
			}
			for i := range p64 {
				p64[i] = -12345
			}
			if pi := mc.Guard(run); pi != nil {
				fail(fn, "panic|"+pi.Func+"|"+pi.Class, pi.Value)
				return
			}
			for i := range ref {
				d := math.Abs(get(i) - ref[i])
				if d > worst {
					worst = d
				}
				if d > tol+1.2e-7*math.Abs(ref[i]) || d != d {
					fail(fn, "luminance differs from the pixel's own samples", fmt.Sprintf("pixel (%d,%d): got %g, documented luminance of its samples %g", i%n, i/n, get(i), ref[i]))
					break
				}
			}
			for _, b := range []*guardmem.Buf{d32, d64, m.by, m.bb, m.br} {
				if rel, ok := b.Check(); !ok {
					fail(fn, "memory outside the buffers was written", fmt.Sprintf("canary at relative offset %d", rel))
				}
			}
		}
		check("transforms32.ImageToGray", func() { transforms32.ImageToGray(m.img, &p32) }, func(i int) float64 { return float64(p32[i]) }, 2.0)
		check("transforms32.AsmYCbCrToGray", func() { transforms32.AsmYCbCrToGray(m.img, p32) }, func(i int) float64 { return float64(p32[i]) }, 2.0)
		check("transforms32.YCbCrToGray", func() { transforms32.YCbCrToGray(m.img, p32) }, func(i int) float64 { return float64(p32[i]) }, 2.0)
		check("transforms.Rgb2GrayFast", func() { transforms.Rgb2GrayFast(m.img, &p64) }, func(i int) float64 { return p64[i] }, 1e-9)
		check("portable yCbCrToGrayAlt", func() { transforms32.VerifYCbCrToGrayGo(m.img, p32) }, func(i int) float64 { return float64(p32[i]) }, 1e-6)
		x.Bulk = 4
		x.Outcome = fmt.Sprintf("%s/%d", ratioName(c20Ratios[ri]), int(worst*4))
		if !withHash {
			return
		}
		// the hash with the dispatching conversion and with the portable one agree up to the margins
		hashPristine()
		hf := &hashSizes[0]
		if n == 256 {
			hf = &hashSizes[1]
		}
		var hd, hg []bool
		saved := transforms32.YCbCrToGray
		if pi := mc.Guard(func() { hd, _ = hf.alt(m.img) }); pi != nil {
			fail(hf.name+"Alt", "panic|"+pi.Func+"|"+pi.Class, pi.Value)
			return
		}
		transforms32.YCbCrToGray = transforms32.VerifYCbCrToGrayGo
		pi := mc.Guard(func() { hg, _ = hf.alt(m.img) })
		transforms32.YCbCrToGray = saved
		if pi != nil {
			fail(hf.name+"Alt(portable conversion)", "panic|"+pi.Func+"|"+pi.Class, pi.Value)
			return
		}
		var dist float64
		a32 := d32.Float32s()[:n*n] // aligned like the pooled buffers the hash functions convert into
		transforms32.ImageToGray(m.img, &a32)
		for i := range ref {
			dist += math.Abs(float64(a32[i]) - ref[i])
		}
		low := refLowDCT(ref, n, hf.l)
		s := append([]float64(nil), low...)
		sort.Float64s(s)
		med := (s[len(s)/2] + s[len(s)/2-1]) / 2
		half := (s[len(s)/2] - s[len(s)/2-1]) / 2
		tau := 2*(4e-5*l1(ref)+1e-9) + dist + 1e-3*float64(n*n) // float32 rounding of the portable luminance
		for i := range hd {
			if hd[i] != hg[i] && math.Abs(low[i]-med) > half+tau {
				fail(hf.name+"Alt", "hash depends on which conversion is selected", fmt.Sprintf("bit %d: coefficient %g median %g margin %g; dispatching %s portable %s", i, low[i], med, half+tau, bitsHex(hd), bitsHex(hg)))
				break
			}
		}
		var _ = imagehash.ErrImageObject
	}
}

// c20NonSquare: an image the conversions cannot handle must not be hashed from the previous image's luminance.
func c20NonSquare(x *mc.Exec) {
	ri := x.All("subsampling", len(c20Ratios))
	hi := x.All("hash-function", 4)
	shapes := [][2]int{{64, 48}, {64, 63}, {64, 65}, {64, 128}, {48, 64}, {65, 64}, {256, 255}, {256, 257}, {255, 256}}
	si := x.All("shape", len(shapes))
	w, h := shapes[si][0], shapes[si][1]
	hf := &hashSizes[hi/2]
	n := []int{64, 256}[hi/2]
	if (w != n && h != n) || (w == n && h == n) {
		x.Trivial = true
		x.Outcome = "n/a"
		return
	}
	call := hf.primary
	name := hf.name
	if hi%2 == 1 {
		call, name = hf.alt, hf.name+"Alt"
	}
	x.InputID = hashBytes([]byte{byte(ri), byte(hi), byte(si), 0x21})
	hashPristine()
	// two different valid images: what the pooled buffer holds differs, the verdict on the odd image must not
	cs := contents(n, map[int]int{64: 8, 256: 16}[n])
	img := image.NewYCbCr(image.Rect(0, 0, w, h), c20Ratios[ri])
	for i := range img.Y {
		img.Y[i] = byte(37 + i*13)
	}
	for i := range img.Cb {
		img.Cb[i], img.Cr[i] = byte(90+i*7), byte(200-i*3)
	}
	var outs [2]string
	for k := 0; k < 2; k++ {
		hashPristine()
		prev := buildImage(kGray, 0, n, cs[[]int{3, len(cs) - 2}[k]])
		if pi := mc.Guard(func() { call(prev) }); pi != nil {
			return
		}
		var bits []bool
		var err error
		if pi := mc.Guard(func() { bits, err = call(img) }); pi != nil {
			x.Fail("mismatch|"+name+"|panic on a non-square YCbCr image", fmt.Sprintf("%dx%d %s: %s", w, h, ratioName(c20Ratios[ri]), pi.Value), nil)
			return
		}
		outs[k] = fmt.Sprintf("%s/%v", bitsHex(bits), err != nil)
	}
	x.Outcome = outs[0]
	if outs[0] != outs[1] {
		x.Fail("mismatch|"+name+"|a non-square YCbCr image is hashed from what the pooled buffer held",
			fmt.Sprintf("%dx%d %s image: after one valid hash the call returns %s, after another %s", w, h, ratioName(c20Ratios[ri]), outs[0], outs[1]), nil)
	}
}

func init() {
	register(&mc.Check{
		Property: "C20",
		Spaces: func(tier string) []mc.Space {
			cs := c20Contents()
			sp := []mc.Space{
				{Name: "layouts-64", H: c20Harness(64, cs, true), NoLevels: true, Isolate: true, SplitDepth: 1,
					Rule: fmt.Sprintf("64x64 YCbCr images: %d plane contents (125 constant triples, ramps, distinct-per-sample, per-lane extremes, fixed noise) x 6 subsampling ratios x 4 origins x luma stride {w, w+8, w+3} x chroma stride {cw, cw+16, cw+3} x planes start-/end-flush against guard pages; ImageToGray, AsmYCbCrToGray, the YCbCrToGray dispatch variable (within 2.0), Rgb2GrayFast and the portable kernel (exact) vs the documented luminance of the pixel's own samples; canaries around destination and planes; NewPHash64Alt with dispatching vs portable conversion", len(cs))},
			}
			if tier == "thorough" {
				var sub []ycContent
				for i, c := range cs {
					if i%5 == 0 || i >= 125 {
						sub = append(sub, c)
					}
				}
				sp = append(sp, mc.Space{Name: "layouts-256", H: c20Harness(256, sub, true), NoLevels: true, Isolate: true, SplitDepth: 1,
					Rule: fmt.Sprintf("256x256: %d contents x the same layout product", len(sub))})
			} else {
				sub := []ycContent{cs[0], cs[62], cs[124], cs[125], cs[127], cs[129], cs[140]}
				sp = append(sp, mc.Space{Name: "layouts-256", H: c20Harness(256, sub, false), NoLevels: true, Isolate: true, SplitDepth: 1,
					Rule: "256x256: 7 contents x the same layout product (conversions only)"})
			}
			sp = append(sp, mc.Space{Name: "non-square-ycbcr", H: c20NonSquare, NoLevels: true, Isolate: true,
				Rule: "YCbCr images with one side equal to the transform size and the other not (48, 63, 65, 128 against 64; 255, 257 against 256) x 6 subsampling ratios x the four hash functions, after a valid hash has left its luminance in the pooled buffer: the gray conversions handle square images only, so such an image is either rejected or hashed from its own pixels, never from what the buffer held"})
			pb := 2
			if tier == "thorough" {
				pb = 3
			}
			sp = append(sp, mc.Space{Name: "concurrent-hash-pairs", H: c05HarnessOf(c19HashPairs), Bound: pb, Isolate: true, SplitDepth: 1,
				Rule: fmt.Sprintf("each hash function twice at the same time on different images (one of them YCbCr) under the cooperative scheduler of C05, every schedule and pool answer with <= %d deviations: the luminance buffer a call converts into is its own until the hash is computed", pb)})
			if raceBin := os.Getenv("VCHECK_RACE_BIN"); raceBin != "" {
				sp = append(sp, mc.Space{Name: "concurrent-hash-pairs/race-detector", H: c05HarnessOf(c19HashPairs), Bound: pb - 1, Isolate: true, SplitDepth: 1,
					Binary: raceBin, Env: []string{"GORACE=halt_on_error=1 exitcode=66 history_size=7"},
					Rule: "the same in the -race build"})
			}
			return sp
		},
		Assumptions: []string{
			"reference luminance = the documented unclamped integer formula (c19.go lumYCbCr) on Y[YOffset(X,Y)], Cb/Cr[COffset(X,Y)] at absolute coordinates",
			"tolerance 2.0 per pixel for the float32 dispatching path as the statement gives; float64 and portable paths exact up to float32 rounding",
			"origins are non-negative; plane contents outside the families are not enumerated",
		},
	})
}
