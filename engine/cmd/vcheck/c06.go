package main

// C06 — the container does not change the metadata.
// C07 — byte order is transparent.
// Both use the same container builder.

import (
	"encoding/binary"
	"fmt"
	"io"

	"verif/gen"
	"verif/mc"
	"verif/obs"

	"github.com/evanoberholster/imagemeta"
	"github.com/evanoberholster/imagemeta/exif2"
)

type entryPoint struct {
	name string
	f    func(io.ReadSeeker) (exif2.Exif, error)
}

type containerKind struct {
	name      string
	imageType string
	nSurround int
	entries   []entryPoint
	build     func(rec *gen.Rec, lay gen.Layout, bo binary.ByteOrder, surround int) *gen.Doc
}

func textChunk() gen.Chunk {
	return gen.Chunk{Type: "tEXt", Data: []byte("Comment\x00made by the verification generator II*\x00 MM\x00*")}
}

var containers = []containerKind{
	{name: "TIFF", imageType: "image/tiff", nSurround: 1,
		entries: []entryPoint{{"imagemeta.Decode", imagemeta.Decode}, {"imagemeta.DecodeTiff", imagemeta.DecodeTiff}, {"imagemeta.DecodeCR2", imagemeta.DecodeCR2}, {"exif2.Parse", exif2Parse}},
		build: func(rec *gen.Rec, lay gen.Layout, bo binary.ByteOrder, s int) *gen.Doc {
			return gen.EncodeTIFF(rec, lay, bo, gen.AllDirs)
		}},
	{name: "JPEG", imageType: "image/jpeg", nSurround: 12,
		entries: []entryPoint{{"imagemeta.Decode", imagemeta.Decode}, {"imagemeta.DecodeJPEG", imagemeta.DecodeJPEG}},
		build: func(rec *gen.Rec, lay gen.Layout, bo binary.ByteOrder, s int) *gen.Doc {
			t := gen.EncodeTIFF(rec, lay, bo, gen.AllDirs)
			xmp := gen.SegXMP([]byte("<x:xmpmeta xmlns:x=\"adobe:ns:meta/\"><rdf:RDF/></x:xmpmeta>"))
			var segs []gen.Seg
			switch s {
			case 0:
				segs = []gen.Seg{gen.SegExif(t)}
			case 1:
				segs = []gen.Seg{gen.SegJFIF(), gen.SegExif(t)}
			case 2:
				segs = []gen.Seg{gen.SegJFIF(), xmp, gen.SegExif(t)}
			case 3:
				segs = []gen.Seg{gen.SegICC(), gen.SegCOM(), gen.SegExif(t), xmp}
			case 4:
				segs = []gen.Seg{gen.SegFFRun(0xE5), gen.SegExif(t)}
			case 5:
				segs = []gen.Seg{gen.SegNestedImage(0xE2), gen.SegNearExif(), gen.SegExif(t), gen.SegAPPn(7, 5000)}
			case 6:
				segs = []gen.Seg{gen.SegAPPn(3, 5000), gen.SegPhotoshop(), gen.SegDRI(), gen.SegExif(t)}
			case 7:
				segs = []gen.Seg{gen.SegJFXX(), gen.SegXMPExt(), gen.SegExif(t), gen.SegSOF(0xC2)}
			case 9, 10, 11: // stray bytes between the segments, at lengths around the scanner's 64-byte look-ahead
				e := gen.SegExif(t)
				e.Junk = []int{63, 127, 64}[s-9]
				x2 := gen.SegXMP([]byte("<x:xmpmeta xmlns:x=\"adobe:ns:meta/\"><rdf:RDF/></x:xmpmeta>"))
				x2.Junk = []int{0, 63, 191}[s-9]
				segs = []gen.Seg{gen.SegJFIF(), e, x2}
			case 8: // fill bytes before markers
				e := gen.SegExif(t)
				e.Fill = 2
				c := gen.SegCOM()
				c.Fill = 1
				segs = []gen.Seg{gen.SegJFIF(), c, e}
			}
			d, _ := gen.BuildJPEG(segs, true)
			return d
		}},
	{name: "PNG", imageType: "image/png", nSurround: 6,
		entries: []entryPoint{{"imagemeta.DecodePng", imagemeta.DecodePng}},
		build: func(rec *gen.Rec, lay gen.Layout, bo binary.ByteOrder, s int) *gen.Doc {
			t := gen.EncodeTIFF(rec, lay, bo, gen.AllDirs)
			var before, after []gen.Chunk
			switch s {
			case 1:
				before = []gen.Chunk{textChunk()}
			case 2:
				before = []gen.Chunk{{Type: "iCCP", Data: make([]byte, 300)}, {Type: "zzZz", Data: []byte("unknown ancillary chunk")}}
				after = []gen.Chunk{textChunk()}
			case 3:
				after = []gen.Chunk{{Type: "tIME", Data: []byte{7, 0xe7, 6, 15, 12, 34, 56}}}
			case 4: // eXIf after the image data
				d, _ := gen.BuildPNGLate(nil, t, nil)
				return d
			case 5:
				d, _ := gen.BuildPNGLate([]gen.Chunk{{Type: "gAMA", Data: []byte{0, 0, 0xb1, 0x8f}}}, t, []gen.Chunk{textChunk()})
				return d
			}
			d, _ := gen.BuildPNG(before, t, after)
			return d
		}},
	{name: "CR3", imageType: "image/x-canon-cr3", nSurround: 12,
		entries: []entryPoint{{"imagemeta.Decode", imagemeta.Decode}, {"imagemeta.DecodeCR3", imagemeta.DecodeCR3}},
		build: func(rec *gen.Rec, lay gen.Layout, bo binary.ByteOrder, s int) *gen.Doc {
			return gen.EncodeBoxes(gen.CR3(gen.CR3FromRecord(rec, lay, bo), s))
		}},
	{name: "HEIF", imageType: "image/heif", nSurround: 2,
		entries: []entryPoint{{"imagemeta.Decode", imagemeta.Decode}, {"imagemeta.DecodeHeif", imagemeta.DecodeHeif}},
		build: func(rec *gen.Rec, lay gen.Layout, bo binary.ByteOrder, s int) *gen.Doc {
			return gen.EncodeBoxes(gen.HEIF(gen.EncodeTIFF(rec, lay, bo, gen.AllDirs), s))
		}},
}

// containerLayout restricts the layout axes to those every container can carry
// (an IFD1 chain and trailing bytes are TIFF-file notions).
func containerLayout(x gen.Chooser) gen.Layout {
	lay := gen.ChooseLayout(x)
	return lay
}

func c06Harness(x *mc.Exec) {
	pristine()
	bo := x.All("byte-order", 2)
	ci := 1 + x.All("container", len(c07Containers)-1)
	c := c07Containers[ci]
	rec := gen.ChooseRecord(x, true)
	shape := gen.ChooseShape(x, rec)
	x.Note("shape", shape)
	lay := containerLayout(x)
	s := x.Choose("surroundings", c.nSurround)
	// reference: the bare TIFF of the same payload
	ref := gen.EncodeTIFF(rec, lay, byteOrders[bo], gen.AllDirs)
	mustSelfCheck(rec, lay, ref, gen.AllDirs)
	rd := runDecode(imagemeta.Decode, ref.B)
	if rd.Panic != nil || rd.Err != nil {
		// C03's business; the relation is undefined without a reference result
		x.Outcome = "reference-failed"
		x.Trivial = true
		return
	}
	want := obs.Exif(rd.Exif, true)
	doc := c.build(rec, lay, byteOrders[bo], s)
	x.InputID = hashBytes(doc.B)
	x.Note("container", c.name)
	x.Note("bytes", fmt.Sprint(len(doc.B)))
	ign := map[string]bool{"ImageType": true}
	if _, a := rec.Get(gen.DirIFD0, 0xc62f); a {
		if _, b := rec.Get(gen.DirExif, 0xa431); b {
			// two different serial numbers in one file: which one is reported depends on
			// the order of the value blocks, and the CR3 embedding (one TIFF block per
			// directory) necessarily orders them differently from a single TIFF block.
			// The statement does not define a precedence, so this observable is not compared.
			ign["CameraSerial"] = true
		}
	}
	if shape != "" && c.name == "CR3" {
		// A field written in an exotic shape may be present but undecodable.  Where two fields feed one
		// observable (ImageWidth / PixelXDimension, Artist / CameraOwnerName, serial numbers, FNumber /
		// ApertureValue) the winner then depends on the order in which the directories are met, and the
		// CR3 embedding necessarily orders them differently from a single TIFF block: not compared.
		for _, o := range []string{"ImageWidth", "ImageHeight", "Artist", "CameraSerial", "FNumber"} {
			ign[o] = true
		}
	}
	for _, ep := range c.entries {
		pristine()
		d := runDecode(ep.f, doc.B)
		where := fmt.Sprintf("%s(%s)", ep.name, c.name)
		if d.Panic != nil {
			failPanic(x, d.Panic, where, doc.B, nil)
			continue
		}
		if d.Err != nil {
			x.Fail(fmt.Sprintf("mismatch|%s|%s|error", where, x.DevLabels()), fmt.Sprintf("%s returned error %v; the bare TIFF of the same payload decodes fine [deviations %s, %s]", where, d.Err, x.DevLabels(), boName[bo]),
				map[string]string{"input_hex": hexInput(doc.B), "record": rec.Describe(), "byte_order": boName[bo]})
			continue
		}
		got := obs.Exif(d.Exif, true)
		if diff := obs.Diff(got, want, ign); len(diff) > 0 {
			failMismatch(x, where+" vs Decode(TIFF)", got, want, diff, doc.B, map[string]string{"record": rec.Describe(), "byte_order": boName[bo], "layout": fmt.Sprintf("%+v", lay)})
		}
		if c.name != "leading bytes + TIFF" && got["ImageType"] != c.imageType {
			x.Fail(fmt.Sprintf("mismatch|%s|%s|[ImageType]", where, x.DevLabels()), fmt.Sprintf("%s reports image type %s, want %s", where, got["ImageType"], c.imageType), map[string]string{"input_hex": hexInput(doc.B)})
		}
		x.Outcome = c.name + fmt.Sprintf(":%x", hashBytes([]byte(got.String()))&0xffff)
	}
	// the other TIFF entry points against Decode(TIFF) — part of the same relation
	if ci == 1 && s == 0 {
		for _, ep := range containers[0].entries[1:] {
			pristine()
			d := runDecode(ep.f, ref.B)
			where := ep.name + "(TIFF)"
			if d.Panic != nil {
				failPanic(x, d.Panic, where, ref.B, nil)
				continue
			}
			got := obs.Exif(d.Exif, true)
			if diff := obs.Diff(got, want, nil); len(diff) > 0 || d.Err != nil {
				if d.Err != nil {
					diff = append(diff, "error")
				}
				failMismatch(x, where+" vs Decode(TIFF)", got, want, diff, ref.B, map[string]string{"error": fmt.Sprint(d.Err)})
			}
		}
	}
}

// c07Containers adds a TIFF block behind 0..69 leading bytes read through exif2.Parse (the header
// search runs over the leading bytes); used for the byte-order relation and, in C06, compared with
// the bare block (its image type is not judged: leading bytes are not a container format).
var c07Containers = append(append([]containerKind{}, containers...), containerKind{
	name: "leading bytes + TIFF", imageType: "image/tiff", nSurround: 70,
	entries: []entryPoint{{"exif2.Parse", exif2Parse}},
	build: func(rec *gen.Rec, lay gen.Layout, bo binary.ByteOrder, s int) *gen.Doc {
		t := gen.EncodeTIFF(rec, lay, bo, gen.AllDirs)
		pre := make([]byte, s)
		for i := range pre {
			pre[i] = "leading bytes without any signature; "[i%37]
		}
		return &gen.Doc{B: append(pre, t.B...)}
	}})

func init() {
	// a TIFF block in the CR2 layout ("CR" 2 0 at bytes 8..11, first directory at 16): the marker bytes are the same in
	// both byte orders, so is the classification
	c07Containers = append(c07Containers, containerKind{
		name: "CR2 layout", imageType: "image/x-canon-cr2", nSurround: 1,
		entries: []entryPoint{{"imagemeta.Decode", imagemeta.Decode}, {"imagemeta.DecodeCR2", imagemeta.DecodeCR2}, {"exif2.Parse", exif2Parse}},
		build: func(rec *gen.Rec, lay gen.Layout, bo binary.ByteOrder, s int) *gen.Doc {
			if lay.FirstIFD < 16 {
				lay.FirstIFD = 16
			}
			d := gen.EncodeTIFF(rec, lay, bo, gen.AllDirs)
			copy(d.B[8:], []byte{'C', 'R', 2, 0, 0, 0, 0, 0})
			return d
		}})
}

func c07Harness(x *mc.Exec) {
	pristine()
	ci := x.All("container", len(c07Containers))
	c := c07Containers[ci]
	full := x.All("base-record", 2) == 0
	rec := gen.ChooseRecord(x, full)
	x.Note("shape", gen.ChooseShape(x, rec))
	lay := gen.CanonicalLayout()
	if full {
		lay = containerLayout(x)
	} else {
		lay.Trailing = 64
	}
	s := x.Choose("surroundings", c.nSurround)
	chunk := []int{0, 1, 7, 3}[x.Choose("reader-chunk", 4)] // how the bytes arrive must not matter to either byte order
	var docs [2]*gen.Doc
	for b := 0; b < 2; b++ {
		docs[b] = c.build(rec, lay, byteOrders[b], s)
	}
	x.InputID = hashBytes(docs[0].B)
	x.Trivial = len(rec.Entries) == 0
	x.Note("container", c.name)
	for _, ep := range c.entries {
		var res [2]decodeResult
		for b := 0; b < 2; b++ {
			pristine()
			res[b] = runDecodeChunked(ep.f, docs[b].B, chunk)
		}
		where := fmt.Sprintf("%s(%s) II vs MM", ep.name, c.name)
		if res[0].Panic != nil || res[1].Panic != nil {
			for b := 0; b < 2; b++ {
				if res[b].Panic != nil {
					failPanic(x, res[b].Panic, where, docs[b].B, nil)
				}
			}
			continue
		}
		oII, oMM := obs.Exif(res[0].Exif, true), obs.Exif(res[1].Exif, true)
		diff := obs.Diff(oII, oMM, nil)
		if res[0].errString() != res[1].errString() {
			diff = append(diff, "error")
		}
		if len(diff) > 0 {
			failMismatch(x, where, oII, oMM, diff, docs[0].B, map[string]string{"record": rec.Describe(), "input_MM_hex": hexInput(docs[1].B), "error_II": res[0].errString(), "error_MM": res[1].errString()})
		}
		x.Outcome = c.name + fmt.Sprintf(":%x", hashBytes([]byte(oII.String()))&0xffff)
	}
}

func init() {
	register(&mc.Check{
		Property: "C06",
		Setup:    defaultLogger,
		Spaces: func(tier string) []mc.Space {
			b := 1
			if tier == "thorough" {
				b = 2
			}
			return []mc.Space{{Name: "containers", H: c06Harness, Bound: b, Isolate: true,
				Rule: "payload = full record (<= bound deviations among field values/types/absence, layout axes incl. first-IFD offset, surroundings menu) x byte order x container {JPEG, PNG, CR3 (split over CMT1/2/4), HEIF} x the entry points that accept the container; each compared with imagemeta.Decode of the bare TIFF of the same payload (and the other TIFF entry points with it)"}}
		},
		Assumptions: []string{
			"pure relation: the reference is the library's own result for the bare TIFF (C03 ties that to the record); executions whose reference fails are skipped and counted trivial",
			"zone names are compared too (same code, same pristine state)",
			"the statement's 'corresponding decode entry points': Decode+DecodeJPEG, DecodePng, Decode+DecodeCR3, Decode+DecodeHeif, Decode+DecodeTiff+DecodeCR2+exif2.Parse",
		},
	})
	register(&mc.Check{
		Property: "C07",
		Setup:    defaultLogger,
		Spaces: func(tier string) []mc.Space {
			b := 1
			if tier == "thorough" {
				b = 2
			}
			return []mc.Space{{Name: "byte-order-pairs", H: c07Harness, Bound: b, Isolate: true,
				Rule: "every logical record (full record with <= bound deviations, or sparse record with <= bound fields) x layout x container {TIFF, JPEG, PNG, CR3, HEIF} x entry point is encoded twice (II and MM) and both results compared, errors included; trivial = empty record"}}
		},
		Assumptions: []string{"both encodings are produced from the same logical record and layout by the same encoder; embedded values are left-justified in the 4-byte slot in either order as TIFF 6.0 prescribes"},
	})
}
