package main

// C03 — Exif fields of a well-formed forward-layout file are extracted with
// their exact values.

import (
	"fmt"

	"verif/gen"
	"verif/mc"
	"verif/obs"

	"github.com/evanoberholster/imagemeta"
)

func c03Harness(full bool) mc.Harness {
	return func(x *mc.Exec) {
		pristine()
		bo := x.All("byte-order", 2)
		rec := gen.ChooseRecord(x, full)
		lay := gen.CanonicalLayout()
		if full {
			lay = gen.ChooseLayout(x)
		} else {
			// small directories: still vary the two layout axes that matter for them
			lay.Order = x.All("lay.block-order", 2)
			lay.NextIFD = x.All("lay.next-ifd", 2)
			lay.Trailing = 64 // image data: a TIFF file is never just a directory (C12 needs 28 bytes after the signature)
		}
		doc := gen.EncodeTIFF(rec, lay, byteOrders[bo], gen.AllDirs)
		mustSelfCheck(rec, lay, doc, gen.AllDirs)
		x.InputID = hashBytes(doc.B)
		x.Trivial = len(rec.Entries) == 0
		want := obs.ExpectExif(rec, "image/tiff")
		outcome := ""
		for ei, entry := range []string{"imagemeta.Decode", "exif2.Parse"} {
			var d decodeResult
			if ei == 0 {
				d = runDecode(imagemeta.Decode, doc.B)
			} else {
				d = runDecode(exif2Parse, doc.B)
			}
			if d.Panic != nil {
				failPanic(x, d.Panic, entry, doc.B, map[string]string{"record": rec.Describe()})
				continue
			}
			got := obs.Exif(d.Exif, false)
			if d.Err != nil {
				x.Fail(fmt.Sprintf("mismatch|%s(TIFF)|%s|error", entry, x.DevLabels()), fmt.Sprintf("%s returned error %v for a well-formed forward-layout file [deviations %s]", entry, d.Err, x.DevLabels()),
					map[string]string{"input_hex": hexInput(doc.B), "record": rec.Describe(), "layout": fmt.Sprintf("%+v", lay)})
				continue
			}
			if diff := obs.Diff(got, want, nil); len(diff) > 0 {
				failMismatch(x, entry+"(TIFF)", got, want, diff, doc.B, map[string]string{"record": rec.Describe(), "layout": fmt.Sprintf("%+v", lay), "byte_order": boName[bo]})
			}
			if ei == 0 {
				outcome = fmt.Sprintf("%x", hashBytes([]byte(got.String())))
			}
		}
		// the same block inside every container (no padding after it: the block ends with its last value)
		if full {
			for _, c := range containers[1:] {
				cdoc := c.build(rec, lay, byteOrders[bo], 0)
				ep := c.entries[len(c.entries)-1]
				pristine()
				d := runDecode(ep.f, cdoc.B)
				where := fmt.Sprintf("%s(%s)", ep.name, c.name)
				if d.Panic != nil {
					failPanic(x, d.Panic, where, cdoc.B, map[string]string{"record": rec.Describe()})
					continue
				}
				if d.Err != nil {
					x.Fail(fmt.Sprintf("mismatch|%s|%s|error", where, x.DevLabels()), fmt.Sprintf("%s returned error %v for a well-formed forward-layout block [deviations %s]", where, d.Err, x.DevLabels()),
						map[string]string{"input_hex": hexInput(cdoc.B), "record": rec.Describe()})
					continue
				}
				got := obs.Exif(d.Exif, false)
				cwant := obs.ExpectExif(rec, c.imageType)
				if diff := obs.Diff(got, cwant, nil); len(diff) > 0 {
					failMismatch(x, where, got, cwant, diff, cdoc.B, map[string]string{"record": rec.Describe(), "layout": fmt.Sprintf("%+v", lay), "byte_order": boName[bo]})
				}
			}
		}
		x.Outcome = outcome
		x.Note("record", truncateStr(rec.Describe(), 400))
		x.Note("layout", fmt.Sprintf("%+v", lay))
		x.Note("bytes", fmt.Sprint(len(doc.B)))
	}
}

func truncateStr(s string, n int) string {
	if len(s) > n {
		return s[:n] + "..."
	}
	return s
}

func init() {
	register(&mc.Check{
		Property: "C03",
		Setup:    defaultLogger,
		Spaces: func(tier string) []mc.Space {
			bFull, bEmpty := 1, 2
			if tier == "thorough" {
				bFull, bEmpty = 2, 3
			}
			return []mc.Space{
				{Name: "full-record", H: c03Harness(true), Bound: bFull, Isolate: true,
					Rule: "full 48-field record in canonical forward layout; deviations: one field's value/type/absence from its boundary menu, or one layout axis (first-IFD offset, block order, padding, value order, foreign tags, IFD1, trailing bytes); both byte orders free; entries: Decode and exif2.Parse on the bare TIFF, and the same block embedded in JPEG, PNG, CR3 (split over CMT1/2/4) and HEIF through DecodeJPEG, DecodePng, DecodeCR3, DecodeHeif; non-trivial = every execution"},
				{Name: "sparse-record", H: c03Harness(false), Bound: bEmpty, Isolate: true,
					Rule: "empty record plus every subset of <= bound fields present (absent fields must be zero); block order and IFD1 free; trivial = the empty record"},
			}
		},
		Assumptions: []string{
			"expected values come from the generator's logical record (obs.ExpectExif): Exif 2.32 semantics; sub-second text is a decimal fraction truncated to ms; times are instants plus zone offset (zone names are not defined by the format and not compared here)",
			"documented normalisations modelled: IFD0 ImageWidth/Length preferred over PixelX/YDimension, FNumber over ApertureValue (APEX), Artist over CameraOwnerName, DNGVersion => DNG; when both serial numbers are present either is accepted",
			"domains: printable ASCII strings without trailing blanks; rationals with n,d < 2^24 or boundary values; exposure-bias denominators <= 127; Make values whose alias is themselves",
			"generator self-validated on every execution by an independent random-access TIFF walker",
		},
	})
}
