package main

// C05 — concurrent calls on independent inputs: no data race, no deadlock, no
// crash, and every call returns what it returns when run alone.
//
// Small closed drivers whose calls are forced to collide on the shared state
// (pools through the vsync shim, the time-zone cache behind its RWMutex) are
// executed under the cooperative scheduler of the shim; every schedule within
// the preemption bound (switching away from a runnable thread costs one) and
// every pool answer is enumerated.  Each harness is explored twice: with the
// plain build (deadlock, panic, result oracles) and with the -race build, in
// which the race detector judges every explored schedule by the
// happens-before edges of the library's own synchronisation.

import (
	"bufio"
	"bytes"
	"encoding/binary"
	"encoding/json"
	"fmt"
	"image"
	"io"
	"os"
	"os/exec"
	"reflect"
	"runtime"
	"strconv"
	"strings"
	"sync"
	"syscall"

	"verif/envio"
	"verif/gen"
	"verif/mc"
	"verif/obs"

	"github.com/evanoberholster/imagemeta"
	"github.com/evanoberholster/imagemeta/exif2"
	"github.com/evanoberholster/imagemeta/imagehash"
	"github.com/evanoberholster/imagemeta/imagetype"
	"github.com/evanoberholster/imagemeta/isobmff"
	"github.com/evanoberholster/imagemeta/jpeg"
	"github.com/evanoberholster/imagemeta/png"
	"github.com/evanoberholster/imagemeta/tiff"
	"github.com/evanoberholster/imagemeta/verifshim/vsync"
	"github.com/evanoberholster/imagemeta/xmp"
)

// yieldReader delivers at most chunk bytes per Read and yields to the
// scheduler before every I/O call (where real goroutines are descheduled).
type yieldReader struct {
	r     *bytes.Reader
	chunk int
}

// c05NoYield turns the I/O yield points off (first-use driver: one process per execution, so few points)
var c05NoYield bool

func (y *yieldReader) Read(p []byte) (int, error) {
	if !c05NoYield {
		vsync.Yield()
	}
	if y.chunk > 0 && len(p) > y.chunk {
		p = p[:y.chunk]
	}
	return y.r.Read(p)
}
func (y *yieldReader) Seek(o int64, w int) (int64, error) {
	if !c05NoYield {
		vsync.Yield()
	}
	return y.r.Seek(o, w)
}
func (y *yieldReader) ReadAt(p []byte, off int64) (int, error) {
	if !c05NoYield {
		vsync.Yield()
	}
	return y.r.ReadAt(p, off)
}

func newYR(b []byte, chunk int) *yieldReader { return &yieldReader{bytes.NewReader(b), chunk} }

type c05Call struct {
	name string
	run  func() string
}

type c05Driver struct {
	variants int                     // > 0: the thread bodies are chosen by a free choice among this many variants
	build    func(v int) [][]c05Call // thread bodies of variant v
	vname    func(v int) string
	name     string
	prelude  func() // sequential calls that put the process into a non-initial state
	vprelude func(v int) func()
	threads  [][]c05Call
	what     string
}

func decodeCall(name string, b []byte, chunk int) c05Call {
	return c05Call{"Decode(" + name + ")", func() string { return exifOutcome(imagemeta.Decode(newYR(b, chunk))) }}
}

func hashOutcome(p []bool, e error) string { return fmt.Sprintf("%s/%v", bitsHex(p), e) }

func c05Drivers() []c05Driver {
	c05InitPairs()
	II := binary.LittleEndian
	by := map[string][]byte{}
	for _, s := range seeds() {
		by[s.name] = s.doc.B
	}
	tz := func(off string) []byte { return tiffWithOffset(off, II) }
	cs := contents(64, 8)
	imgA := buildImage(kGray, 0, 64, cs[20])
	imgB := buildImage(kYCbCr, 0, 64, cs[len(cs)-1])
	imgC := buildImage(kRGBA, 0, 64, cs[140])
	h64 := func(name string, m image.Image) c05Call {
		return c05Call{"NewPHash64(" + name + ")", func() string { return hashOutcome(hashSizes[0].primary(m)) }}
	}
	h64a := func(name string, m image.Image) c05Call {
		return c05Call{"NewPHash64Alt(" + name + ")", func() string { return hashOutcome(hashSizes[0].alt(m)) }}
	}
	one := func(c c05Call) []c05Call { return []c05Call{c} }
	return []c05Driver{
		{name: "H1-timezone-cache",
			what:    "three decodes whose OffsetTime values hit the same cache key with different names (+02:00, +01:60) and a distinct key (-09:30): map read vs write, check-then-act between RUnlock and Lock",
			threads: [][]c05Call{one(decodeCall("tz +02:00", tz("+02:00"), 0)), one(decodeCall("tz +01:60", tz("+01:60"), 0)), one(decodeCall("tz -09:30", tz("-09:30"), 0))}},
		{name: "H2-pool-handover",
			what:    "three decodes of different containers with one pooled object per pool left by an earlier decode: hand-over of one *buffer / *bufio.Reader between threads; reads delivered in 600-byte chunks",
			prelude: func() { imagemeta.Decode(bytes.NewReader(by["tiff-min-II"])) },
			threads: [][]c05Call{one(decodeCall("tiff-rich-II", by["tiff-rich-II"], 600)), one(decodeCall("jpeg-rich-II", by["jpeg-rich-II"], 600)),
				one(c05Call{"DecodePng(png-rich-MM)", func() string { return exifOutcome(imagemeta.DecodePng(newYR(by["png-rich-MM"], 600))) }})}},
		{name: "H3-pixel-pools",
			what:    "NewPHash64 || NewPHash64 || NewPHash64Alt with one pooled pixel buffer from an earlier hash",
			prelude: func() { hashSizes[0].primary(imgC); hashSizes[0].alt(imgC) },
			threads: [][]c05Call{one(h64("A", imgA)), one(h64("B", imgB)), one(h64a("B", imgB))}},
		{name: "H4-mixed-entry-points",
			what: "Decode(CR3) || PreviewCR3 || imagetype.Scan + DecodeHeif || NewPHash64Alt",
			threads: [][]c05Call{one(decodeCall("cr3-rich-II", by["cr3-rich-II"], 1500)),
				one(c05Call{"PreviewCR3", func() string {
					b, err := imagemeta.PreviewCR3(newYR(by["cr3-rich-II"], 1500))
					return fmt.Sprintf("%x|%v", b, err)
				}}),
				{c05Call{"imagetype.Scan", func() string {
					t, err := imagetype.Scan(newYR(by["heif-rich-MM"], 0))
					return t.String() + "|" + errStr(err)
				}}, c05Call{"DecodeHeif", func() string { return exifOutcome(imagemeta.DecodeHeif(newYR(by["heif-rich-MM"], 1500))) }}},
				one(h64a("A", imgA))}},
		{name: "H5-two-by-two",
			what: "two threads, two operations each: the second operation starts from what the first left (tz decode then JPEG decode || exif2.Parse then tz decode with the same offset under another name)",
			threads: [][]c05Call{
				{decodeCall("tz +02:00", tz("+02:00"), 0), c05Call{"DecodeJPEG", func() string { return exifOutcome(imagemeta.DecodeJPEG(newYR(by["jpeg-min-MM"], 0))) }}},
				{c05Call{"exif2.Parse(tiff-min-II)", func() string { return exifOutcome(exif2.Parse(newYR(by["tiff-min-II"], 0))) }}, decodeCall("tz +01:60", tz("+01:60"), 0)}}},
		{name: "H7-low-level-entry-points",
			what: "after sequential JPEG/CR3 decodes (pools populated by every layer): DecodeJPEG || jpeg.ScanJPEG on a plain reader with the library's own Exif/XMP callbacks || isobmff.Reader driven directly: pooled readers of the different layers must never be shared",
			prelude: func() {
				imagemeta.DecodeJPEG(bytes.NewReader(by["jpeg-min-MM"]))
				imagemeta.DecodeCR3(bytes.NewReader(by["cr3-min-MM-64bit"]))
			},
			threads: [][]c05Call{
				one(c05Call{"DecodeJPEG(jpeg-rich-II)", func() string { return exifOutcome(imagemeta.DecodeJPEG(newYR(by["jpeg-rich-II"], 700))) }}),
				one(c05Call{"jpeg.ScanJPEG(plain reader)", func() string {
					ir := exif2.NewIfdReader(exif2.Logger)
					defer ir.Close()
					var x xmp.XMP
					err := jpeg.ScanJPEG(newYR(by["jpeg-rich-II"], 700), ir.DecodeJPEGIfd, func(r io.Reader) error { x, _ = xmp.ParseXmp(r); return nil })
					return exifOutcome(ir.Exif, err) + "|" + obs.Flatten(x).String()
				}}),
				one(c05Call{"isobmff.Reader(cr3-rich-II)", func() string {
					ir := exif2.NewIfdReader(exif2.Logger)
					defer ir.Close()
					bmr := isobmff.NewReader(newYR(by["cr3-rich-II"], 1500))
					defer bmr.Close()
					bmr.ExifReader = ir.DecodeIfd
					out := errStr(bmr.ReadFTYP())
					for i := 0; i < 3; i++ {
						out += ";" + errStr(bmr.ReadMetadata())
					}
					return out + "|" + exifOutcome(ir.Exif, nil)
				}})}},
		{name: "H8-same-entry-point-twice",
			what:     "for each entry point E (DecodeTiff, DecodeJPEG, DecodePng, DecodeCR3, DecodeHeif, PreviewCR3, exif2.Parse, jpeg.ScanJPEG, png.ScanPngHeader, tiff.ScanTiffHeader, xmp.ParseXmp, imagetype.Scan, NewPHash64, NewPHash64Alt, NewPHash256Alt): E(input A) || E(input B) with reads delivered in small chunks: a scratch buffer shared between two calls of the same function shows as a race and as a wrong result",
			variants: len(c05PairEntries),
			vname:    func(v int) string { return c05PairEntries[v].name },
			build: func(v int) [][]c05Call {
				e := c05PairEntries[v]
				return [][]c05Call{{{e.name + "(A)", func() string { return e.run(0) }}}, {{e.name + "(B)", func() string { return e.run(1) }}}}
			}},
		{name: "H9-after-each-single-call",
			what:     "for every operation of the history alphabet of C04 (every entry point on good, cut, unsupported and unrecognised inputs, hashes, wrong-size images): that one call made sequentially, then Decode(TIFF) || Decode(JPEG): whatever the call left in the pools (objects returned once, twice or never) must not let two concurrent decodes share an object",
			variants: len(c04Ops()) - 4,
			vname:    func(v int) string { return c04Ops()[v].name },
			vprelude: func(v int) func() { return func() { vsync.Chooser = nil; c04Ops()[v].run() } },
			build: func(v int) [][]c05Call {
				return [][]c05Call{one(decodeCall("tiff-rich-II", by["tiff-rich-II"], 1200)), one(decodeCall("jpeg-rich-II", by["jpeg-rich-II"], 1200))}
			}},
		{name: "H6-error-paths",
			what: "a decode that fails half-way (early returns and their deferred Puts) || a successful decode || a truncated CR3",
			threads: [][]c05Call{one(decodeCall("tiff-rich-II cut", by["tiff-rich-II"][:len(by["tiff-rich-II"])*6/10], 400)),
				one(decodeCall("tz -09:30", tz("-09:30"), 0)),
				one(decodeCall("cr3 cut", by["cr3-rich-II"][:900], 500))}},
	}
}

type c05PairEntry struct {
	name string
	run  func(which int) string
}

var c05PairEntries []c05PairEntry

func c05InitPairs() {
	if c05PairEntries != nil {
		return
	}
	by := map[string][]byte{}
	for _, s := range seeds() {
		by[s.name] = s.doc.B
	}
	II := binary.LittleEndian
	two := func(a, b string) [2][]byte { return [2][]byte{by[a], by[b]} }
	dec := func(name string, in [2][]byte, chunk int, f func(r io.ReadSeeker) (exif2.Exif, error)) {
		c05PairEntries = append(c05PairEntries, c05PairEntry{name, func(w int) string { return exifOutcome(f(newYR(in[w], chunk))) }})
	}
	tiffs := [2][]byte{by["tiff-rich-II"], tiffWithOffset("-09:30", II)}
	dec("DecodeTiff", tiffs, 300, imagemeta.DecodeTiff)
	dec("exif2.Parse", tiffs, 300, exif2Parse)
	dec("DecodeJPEG", two("jpeg-rich-II", "jpeg-min-MM"), 200, imagemeta.DecodeJPEG)
	dec("DecodePng", two("png-rich-MM", "png-late-exif-MM"), 9, imagemeta.DecodePng)
	dec("DecodeCR3", two("cr3-rich-II", "cr3-min-MM-64bit"), 700, imagemeta.DecodeCR3)
	dec("DecodeHeif", two("heif-rich-MM", "heic-items-min-II"), 500, imagemeta.DecodeHeif)
	add := func(name string, f func(w int) string) {
		c05PairEntries = append(c05PairEntries, c05PairEntry{name, f})
	}
	cr3s := two("cr3-rich-II", "cr3-min-MM-64bit")
	add("PreviewCR3", func(w int) string {
		b, err := imagemeta.PreviewCR3(newYR(cr3s[w], 700))
		return fmt.Sprintf("%x|%v", b, err)
	})
	jp := two("jpeg-rich-II", "jpeg-min-MM")
	add("jpeg.ScanJPEG", func(w int) string {
		ir := exif2.NewIfdReader(exif2.Logger)
		defer ir.Close()
		var x xmp.XMP
		err := jpeg.ScanJPEG(newYR(jp[w], 150), ir.DecodeJPEGIfd, func(r io.Reader) error { x, _ = xmp.ParseXmp(r); return nil })
		return exifOutcome(ir.Exif, err) + "|" + obs.Flatten(x).String()
	})
	pn := two("png-rich-MM", "png-late-exif-MM")
	add("png.ScanPngHeader", func(w int) string { return hdrOutcome(png.ScanPngHeader(newYR(pn[w], 5))) })
	hf := two("heif-rich-MM", "jpeg-rich-II")
	add("tiff.ScanTiffHeader", func(w int) string { return hdrOutcome(tiff.ScanTiffHeader(newYR(hf[w], 40), imagetype.ImageUnknown)) })
	xp := [2][]byte{by["xmp-sidecar"], by["xmp-sidecar"][:len(by["xmp-sidecar"])*2/3]}
	add("xmp.ParseXmp", func(w int) string {
		v, err := xmp.ParseXmp(newYR(xp[w], 100))
		return obs.Flatten(v).String() + "|" + errStr(err)
	})
	add("imagetype.Scan", func(w int) string {
		t, err := imagetype.Scan(newYR(hf[w], 5))
		return t.String() + "|" + errStr(err)
	})
	cs := contents(64, 8)
	imgs := [2]image.Image{buildImage(kGray, 0, 64, cs[20]), buildImage(kYCbCr, 0, 64, cs[len(cs)-1])}
	add("NewPHash64", func(w int) string { return hashOutcome(hashSizes[0].primary(imgs[w])) })
	add("NewPHash64Alt", func(w int) string { return hashOutcome(hashSizes[0].alt(imgs[w])) })
	c2 := contents(256, 16)
	imgs2 := [2]image.Image{buildImage(kGray, 0, 256, c2[9]), buildImage(kRGBA, 0, 256, c2[len(c2)-2])}
	add("NewPHash256Alt", func(w int) string { return hashOutcome(hashSizes[1].alt(imgs2[w])) })
	// one chroma-subsampled and one 4:4:4 image: the conversion kernel is chosen per call, never for the process
	imgs420 := [2]image.Image{buildImage(kYCbCr420, 0, 64, cs[25]), buildImage(kYCbCr, 0, 64, cs[len(cs)-2])}
	add("NewPHash64Alt(4:2:0 || 4:4:4)", func(w int) string { return hashOutcome(hashSizes[0].alt(imgs420[w])) })
	add("NewPHash64(4:2:0 || 4:4:4)", func(w int) string { return hashOutcome(hashSizes[0].primary(imgs420[w])) })
	add("NewPHash256", func(w int) string { return hashOutcome(hashSizes[1].primary(imgs2[w])) })
	// one opaque image and one with fully transparent pixels (a conversion may not leave those to the buffer's previous user)
	imgsH := [2]image.Image{buildImage(kRGBA, 0, 64, cs[30]), buildImage(kNRGBAHoles, 0, 64, cs[len(cs)-4])}
	add("NewPHash64Alt(opaque || transparent pixels)", func(w int) string { return hashOutcome(hashSizes[0].alt(imgsH[w])) })
	add("NewPHash64(opaque || transparent pixels)", func(w int) string { return hashOutcome(hashSizes[0].primary(imgsH[w])) })
	imgsH2 := [2]image.Image{buildImage(kGray, 0, 256, c2[11]), buildImage(kNRGBAHoles, 0, 256, c2[len(c2)-3])}
	add("NewPHash256Alt(opaque || transparent pixels)", func(w int) string { return hashOutcome(hashSizes[1].alt(imgsH2[w])) })
	add("NewPHash256(opaque || transparent pixels)", func(w int) string { return hashOutcome(hashSizes[1].primary(imgsH2[w])) })
	imgs3 := [2]image.Image{buildImage(kRGBA, 0, 64, cs[33]), buildImage(kYCbCr, 0, 64, cs[len(cs)-3])}
	add("EncodeBlurHashFast", func(w int) string { s, err := imagehash.EncodeBlurHashFast(imgs3[w]); return s + "|" + errStr(err) })
	add("NewAHash", func(w int) string {
		h, err := imagehash.NewAHash(imgs3[w])
		return fmt.Sprintf("%x|%s", uint64(h), errStr(err))
	})
}

// ---- the first calls of a process ----
//
// State that the library builds lazily on first use (tables, caches, once-initialised globals) exists
// only until the first call has run: a harness that computes its sequential reference first never sees
// it being built.  Here every execution runs in a fresh child process: E(A) || E(B) are the first two
// calls that process ever makes, under the parent's explorer (the child asks the parent for every
// scheduling decision), and the sequential reference is computed in the child afterwards.

type c05ChildResult struct {
	Results  []string
	After    []string
	Panics   []string
	Deadlock bool
	Blocked  string
	Points   int
}

func c05ChildMain(arg string) (code int) {
	defer func() {
		if r := recover(); r != nil {
			if he, ok := r.(mc.HarnessError); ok {
				fmt.Fprintln(os.Stderr, "HARNESS-ERROR:", he.Msg)
				code = 12
				return
			}
			panic(r)
		}
	}()
	v, _ := strconv.Atoi(arg)
	runtime.GOMAXPROCS(1)
	defaultLogger()
	c05NoYield = true
	c05InitPairs()
	e := c05PairEntries[v]
	res := c05ChildResult{Results: make([]string, 2), After: make([]string, 2), Panics: make([]string, 2)}
	bodies := []func(){func() { res.Results[0] = e.run(0) }, func() { res.Results[1] = e.run(1) }}
	in := bufio.NewReader(os.Stdin)
	decide := func(kind string, n int, curEnabled bool, detail string) int {
		fmt.Fprintf(os.Stdout, "D %s %d %v\n", kind, n, curEnabled)
		line, err := in.ReadString('\n')
		if err != nil {
			os.Exit(3)
		}
		c, _ := strconv.Atoi(strings.TrimSpace(line))
		return c
	}
	r := vsync.Run(bodies, decide)
	res.Deadlock, res.Blocked, res.Points = r.Deadlock, r.Blocked, r.Points
	for i := range r.Panics {
		if r.Panics[i] != nil {
			res.Panics[i] = fmt.Sprintf("%v\n%s", r.Panics[i], r.Stacks[i])
		}
	}
	if !r.Deadlock {
		for w := 0; w < 2; w++ {
			w := w
			if pi := mc.Guard(func() { res.After[w] = e.run(w) }); pi != nil {
				res.After[w] = "PANIC " + pi.Signature()
			}
		}
	}
	b, _ := json.Marshal(res)
	fmt.Fprintf(os.Stdout, "R %s\n", b)
	return 0
}

// ---- calls that leave a pool holding one object twice ----
//
// Two concurrent Gets can only return the same object if some pool holds it twice (the shim's pools hand out
// what was Put, or New).  Every input of C04's victim list (every seed, cut and single-field malformation
// through every entry point, the JPEG marker structures, the degenerate records) is run alone; where a pool
// afterwards holds an object twice, Decode(TIFF) || Decode(JPEG) is run under every schedule with one
// preemption, and each result must equal its sequential result.  The duplicate is only the reason to look:
// the oracle is the result of the concurrent calls.

func c05PoolDuplicates() (int, string) {
	n, where := 0, ""
	for _, p := range vsync.Pools() {
		seen := map[uintptr]bool{}
		for _, it := range p.Items() {
			v := reflect.ValueOf(it)
			switch v.Kind() {
			case reflect.Ptr, reflect.Map, reflect.Slice, reflect.Chan, reflect.UnsafePointer:
				ptr := v.Pointer()
				if seen[ptr] {
					n++
					where = fmt.Sprintf("pool #%d holds one %T twice", p.ID(), it)
				}
				seen[ptr] = true
			}
		}
	}
	return n, where
}

var c05H11Victims []c04Victim

func c05AfterDuplicates(x *mc.Exec) {
	runtime.GOMAXPROCS(1)
	if c05H11Victims == nil {
		c05H11Victims = c04Victims("quick")
	}
	vs := c05H11Victims
	const chunk = 512
	ch := x.All("victim-chunk", (len(vs)+chunk-1)/chunk)
	by := map[string][]byte{}
	for _, s := range seeds() {
		by[s.name] = s.doc.B
	}
	calls := []c05Call{decodeCall("tiff-rich-II", by["tiff-rich-II"], 1200), decodeCall("jpeg-rich-II", by["jpeg-rich-II"], 1200)}
	var golden []string
	n, dups := 0, 0
	for i := ch * chunk; i < (ch+1)*chunk && i < len(vs); i++ {
		v := vs[i]
		prelude := func() {
			pristine()
			defaultLogger()
			if v.run != nil {
				mc.Guard(func() { v.run() })
			} else {
				runEntry(&entryPoints[v.entry], envio.New(v.data), false)
			}
		}
		prelude()
		n++
		d, where := c05PoolDuplicates()
		if d == 0 {
			continue
		}
		dups++
		if golden == nil {
			for _, c := range calls {
				pristine()
				defaultLogger()
				golden = append(golden, c.run())
			}
		}
		name := "the call"
		if v.run == nil {
			name = entryPoints[v.entry].name
		}
		points := 1
		for k := 0; k < points && k < 4000; k++ {
			prelude()
			results := make([]string, 2)
			bodies := []func(){func() { results[0] = calls[0].run() }, func() { results[1] = calls[1].run() }}
			cnt := 0
			decide := func(kind string, nn int, curEnabled bool, detail string) int {
				if kind != "sched" {
					return 0
				}
				cnt++
				if cnt-1 == k && nn > 1 {
					return 1
				}
				return 0
			}
			res := vsync.Run(bodies, decide)
			if cnt > points {
				points = cnt
			}
			bad := res.Deadlock
			for w := 0; w < 2; w++ {
				if res.Panics[w] != nil || results[w] != golden[w] {
					bad = true
				}
			}
			if bad {
				x.Fail("concurrent-result-differs|H11-after-a-call-that-leaves-a-duplicate|"+name,
					fmt.Sprintf("after %s on %s (%s): Decode(TIFF) || Decode(JPEG) with a switch at scheduling point %d returned %s / %s ; alone they return %s / %s",
						name, v.what, where, k, truncStr(results[0], 200), truncStr(results[1], 200), truncStr(golden[0], 200), truncStr(golden[1], 200)),
					map[string]string{"case": v.what, "pool": where, "input_hex": hexInput(v.data)})
				break
			}
		}
	}
	x.Bulk = int64(n) - 1
	x.InputID = hashBytes([]byte(fmt.Sprint("h11", ch)))
	x.Outcome = fmt.Sprintf("dups%d", dups)
}

// ---- the same malformed input twice ----
//
// Error paths build their results too (error values, partial records): the same single-field malformation of a
// generated seed is decoded by two threads at once.  In the race build a shared, mutable error value or scratch
// area on an error path is a write/write race whatever the schedule; in the plain build each result must equal
// the sequential one.

func c05MalformedPairs(x *mc.Exec) {
	runtime.GOMAXPROCS(1)
	var withFields []seed
	for _, s := range genSeeds() {
		if len(s.doc.Fields) > 0 && len(s.doc.B) < 6000 {
			withFields = append(withFields, s)
		}
	}
	s := withFields[x.All("seed", len(withFields))]
	d := &gen.Doc{B: append([]byte{}, s.doc.B...), Fields: s.doc.Fields}
	what := d.Malform(x, 1)
	x.Trivial = len(what) == 0
	call := func() string { return exifOutcome(imagemeta.Decode(bytes.NewReader(d.B))) }
	if s.kind == "png" {
		call = func() string { return exifOutcome(imagemeta.DecodePng(bytes.NewReader(d.B))) }
	}
	pristine()
	defaultLogger()
	var golden string
	if pi := mc.Guard(func() { golden = call() }); pi != nil {
		x.Outcome = "panic"
		return // C01's business
	}
	pristine()
	defaultLogger()
	results := make([]string, 2)
	bodies := []func(){func() { results[0] = call() }, func() { results[1] = call() }}
	decide := func(kind string, n int, curEnabled bool, detail string) int {
		switch kind {
		case "sched":
			if curEnabled {
				return x.Choose("sched", n)
			}
			return x.All("sched", n)
		default:
			// every Get is answered by New (sync.Pool may always do so): no pooled object travels from one call to the
			// other, so nothing orders the two calls and the race detector judges every write on the shared paths
			return n - 1
		}
	}
	res := vsync.Run(bodies, decide)
	name := "H12-the-same-malformed-input-twice"
	x.InputID = hashBytes(append([]byte(x.Devs().String()), d.B...))
	x.Outcome = fmt.Sprintf("sw%d", res.Switches)
	det := map[string]string{"driver": name, "seed": s.name, "malformation": fmt.Sprint(what), "input_hex": hexInput(d.B)}
	if res.Deadlock {
		x.Fail("deadlock|"+name, "deadlock: "+res.Blocked, det)
		return
	}
	for w := 0; w < 2; w++ {
		if res.Panics[w] != nil {
			x.Fail("panic|"+name+"|concurrent", fmt.Sprintf("thread %d panicked: %v", w, res.Panics[w]), det)
		} else if results[w] != golden {
			x.Fail("concurrent-result-differs|"+name, fmt.Sprintf("seed %s with %v decoded twice at once: call %d returned %s ; alone it returns %s", s.name, what, w, truncStr(results[w], 300), truncStr(golden, 300)), det)
		}
	}
}

func c05FirstUse(x *mc.Exec) {
	c05InitPairs()
	v := x.All("entry-point", len(c05PairEntries))
	name := "H10-first-calls-of-a-process/" + c05PairEntries[v].name
	exe, err := os.Executable()
	if err != nil {
		panic(mc.HarnessError{Msg: "c05: " + err.Error()})
	}
	cmd := exec.Command(exe, "c05child", strconv.Itoa(v))
	cmd.SysProcAttr = &syscall.SysProcAttr{Pdeathsig: syscall.SIGKILL}
	stdin, _ := cmd.StdinPipe()
	stdout, _ := cmd.StdoutPipe()
	var stderr bytes.Buffer
	cmd.Stderr = &stderr
	if err := cmd.Start(); err != nil {
		panic(mc.HarnessError{Msg: "c05: cannot start child: " + err.Error()})
	}
	sc := bufio.NewScanner(stdout)
	sc.Buffer(make([]byte, 1<<20), 1<<26)
	var res *c05ChildResult
	for sc.Scan() {
		line := sc.Text()
		switch {
		case strings.HasPrefix(line, "D "):
			var kind string
			var n int
			var cur bool
			fmt.Sscanf(line[2:], "%s %d %t", &kind, &n, &cur)
			c := 0
			switch {
			case kind == "sched" && cur:
				c = x.Choose("sched", n)
			case kind == "sched":
				c = x.All("sched", n)
			case os.Getenv("GORACE") != "":
				// race build: every Get is answered by New, so that no pooled object orders the two first calls
				// and the detector judges everything they share
				c = n - 1
			default:
				c = x.Choose("pool-answer", n)
			}
			fmt.Fprintf(stdin, "%d\n", c)
		case strings.HasPrefix(line, "R "):
			res = &c05ChildResult{}
			json.Unmarshal([]byte(line[2:]), res)
		}
	}
	stdin.Close()
	werr := cmd.Wait()
	x.InputID = hashBytes([]byte(name + x.Devs().String()))
	x.Note("driver", name)
	det := map[string]string{"driver": name, "schedule": x.Devs().String(),
		"what": "E(A) || E(B) as the first two calls a fresh process makes; the sequential reference is computed in that process afterwards"}
	code := 0
	if ee, ok := werr.(*exec.ExitError); ok {
		code = ee.ExitCode()
	} else if werr != nil {
		code = -1
	}
	if code == 66 || strings.Contains(stderr.String(), "WARNING: DATA RACE") {
		a, b, _ := mc.RaceSites(stderr.String())
		det["report"] = truncStr(stderr.String(), 6000)
		x.Fail("race|"+a+"|"+b, name+": data race between the first calls of a process", det)
		x.Outcome = "race"
		return
	}
	if code == 12 {
		panic(mc.HarnessError{Msg: "c05 child: " + truncStr(stderr.String(), 2000)})
	}
	if code != 0 || res == nil {
		det["stderr"] = truncStr(stderr.String(), 6000)
		x.Fail("fatal|"+name, fmt.Sprintf("%s: the child process ended with status %d before reporting", name, code), det)
		x.Outcome = "fatal"
		return
	}
	x.Outcome = fmt.Sprintf("p%d", res.Points)
	if res.Deadlock {
		x.Fail("deadlock|"+name, name+": deadlock: "+res.Blocked, det)
		return
	}
	for w := 0; w < 2; w++ {
		if res.Panics[w] != "" {
			x.Fail("panic|"+name+"|concurrent", fmt.Sprintf("%s: thread %d panicked: %s", name, w, truncStr(res.Panics[w], 1500)), det)
		} else if res.Results[w] != res.After[w] {
			x.Fail("concurrent-result-differs|"+name, fmt.Sprintf("%s: call %d returned %s ; the same call made afterwards, alone, returns %s", name, w, truncStr(res.Results[w], 400), truncStr(res.After[w], 400)), det)
		}
	}
}

var c05DriverCache []c05Driver
var c05Golden = map[string][][]string{}

func c05Get() []c05Driver {
	if c05DriverCache == nil {
		c05DriverCache = c05Drivers()
	}
	return c05DriverCache
}

// golden results: every call run alone on pristine state
func c05GoldenFor(d *c05Driver) [][]string {
	if g, ok := c05Golden[d.name]; ok {
		return g
	}
	g := make([][]string, len(d.threads))
	for i, th := range d.threads {
		for _, c := range th {
			pristine()
			defaultLogger()
			g[i] = append(g[i], c.run())
		}
	}
	c05Golden[d.name] = g
	return g
}

func c05Harness(di int) mc.Harness {
	return c05HarnessOf(func() *c05Driver { return &c05Get()[di] })
}

// c19HashPairs: each perceptual-hash function twice at the same time on different images (C19: the hash is
// a function of the pixels of its own argument, whatever else the process is hashing).
var c19HashPairsCache *c05Driver

func c19HashPairs() *c05Driver {
	if c19HashPairsCache == nil {
		c05InitPairs()
		var es []c05PairEntry
		for _, e := range c05PairEntries {
			if strings.HasPrefix(e.name, "NewPHash") {
				es = append(es, e)
			}
		}
		c19HashPairsCache = &c05Driver{name: "concurrent-hash-pairs",
			what:     "each of NewPHash64, NewPHash64Alt, NewPHash256, NewPHash256Alt twice at the same time on different images",
			variants: len(es),
			vname:    func(v int) string { return es[v].name },
			build: func(v int) [][]c05Call {
				e := es[v]
				return [][]c05Call{{{e.name + "(A)", func() string { return e.run(0) }}}, {{e.name + "(B)", func() string { return e.run(1) }}}}
			}}
	}
	return c19HashPairsCache
}

func c05HarnessOf(get func() *c05Driver) mc.Harness {
	return func(x *mc.Exec) {
		runtime.GOMAXPROCS(1)
		d0 := get()
		d := d0
		if d0.variants > 0 {
			v := x.All("entry-point", d0.variants)
			dv := *d0
			dv.name = d0.name + "/" + d0.vname(v)
			dv.threads = d0.build(v)
			if d0.vprelude != nil {
				dv.prelude = d0.vprelude(v)
			}
			d = &dv
		}
		golden := c05GoldenFor(d)
		// race build: also with every Get answered by New, so that no pooled object handed from one thread to the
		// other orders their accesses and the detector judges everything else they share
		allNew := os.Getenv("GORACE") != "" && x.All("every-Get-answered-by-New", 2) == 1
		pristine()
		defaultLogger()
		if d.prelude != nil {
			d.prelude()
		}
		results := make([][]string, len(d.threads))
		bodies := make([]func(), len(d.threads))
		for i := range d.threads {
			i := i
			results[i] = make([]string, len(d.threads[i]))
			bodies[i] = func() {
				for k, c := range d.threads[i] {
					results[i][k] = c.run()
				}
			}
		}
		decide := func(kind string, n int, curEnabled bool, detail string) int {
			switch kind {
			case "sched":
				if curEnabled {
					return x.Choose("sched", n)
				}
				return x.All("sched", n)
			default:
				if allNew {
					return n - 1
				}
				return x.Choose("pool-answer", n)
			}
		}
		res := vsync.Run(bodies, decide)
		x.InputID = hashBytes([]byte(d.name + x.Devs().String()))
		x.Outcome = fmt.Sprintf("sw%d", res.Switches)
		x.Note("driver", d.name)
		x.Note("points", fmt.Sprint(res.Points))
		x.Note("switches", fmt.Sprint(res.Switches))
		det := map[string]string{"driver": d.name, "what": d.what, "schedule": x.Devs().String()}
		if res.Deadlock {
			x.Fail("deadlock|"+d.name, fmt.Sprintf("%s: deadlock: no enabled thread while some are unfinished: %s", d.name, res.Blocked), det)
			return
		}
		for i := range d.threads {
			if res.Panics[i] != nil {
				st := string(res.Stacks[i])
				fn := "?"
				for _, line := range strings.Split(st, "\n") {
					line = strings.TrimSpace(line)
					if strings.HasPrefix(line, mc.ModulePath) && !strings.Contains(line, "/verifshim/") {
						fn = strings.TrimPrefix(line, mc.ModulePath+"/")
						if k := strings.LastIndex(fn, "("); k > 0 {
							fn = fn[:k]
						}
						break
					}
				}
				x.Fail("panic|"+fn+"|concurrent", fmt.Sprintf("%s: thread %d panicked: %v", d.name, i, res.Panics[i]), map[string]string{"driver": d.name, "stack": st})
				continue
			}
			for k := range d.threads[i] {
				if results[i][k] != golden[i][k] {
					x.Fail("concurrent-result-differs|"+d.name+"|"+d.threads[i][k].name,
						fmt.Sprintf("%s: %s returned %s ; run alone it returns %s", d.name, d.threads[i][k].name, truncStr(results[i][k], 400), truncStr(golden[i][k], 400)), det)
				}
			}
		}
	}
}

// c05Free runs the same bodies on free-running goroutines (no scheduler):
// auxiliary cross-check of the shim's fidelity, meaningful in the -race build.
func c05Free(x *mc.Exec) {
	ds := c05Get()
	di := x.All("driver", len(ds))
	procs := []int{1, 4, 16}[x.All("gomaxprocs", 3)]
	rep := x.All("repetition", 8)
	d := &ds[di]
	golden := c05GoldenFor(d)
	pristine()
	defaultLogger()
	old := runtime.GOMAXPROCS(procs)
	defer runtime.GOMAXPROCS(old)
	var wg sync.WaitGroup
	const copies = 16
	type out struct {
		i, k int
		s    string
	}
	res := make([][]out, copies*len(d.threads))
	for c := 0; c < copies; c++ {
		for i := range d.threads {
			wg.Add(1)
			go func(slot, i int) {
				defer wg.Done()
				for k, call := range d.threads[i] {
					res[slot] = append(res[slot], out{i, k, call.run()})
				}
			}(c*len(d.threads)+i, i)
		}
	}
	wg.Wait()
	x.InputID = hashBytes([]byte(fmt.Sprint(d.name, procs, rep)))
	x.Outcome = d.name
	for _, r := range res {
		for _, o := range r {
			if o.s != golden[o.i][o.k] {
				x.Fail("concurrent-result-differs|"+d.name+"|"+d.threads[o.i][o.k].name+"|free-running", fmt.Sprintf("%s (free-running, GOMAXPROCS=%d): %s differs from its sequential result", d.name, procs, d.threads[o.i][o.k].name), nil)
				return
			}
		}
	}
}

func init() {
	register(&mc.Check{Property: "C05", Setup: defaultLogger,
		Spaces: func(tier string) []mc.Space {
			raceBin := os.Getenv("VCHECK_RACE_BIN")
			raceEnv := []string{"GORACE=halt_on_error=1 exitcode=66 history_size=7"}
			pb, rb := 2, 1
			if tier == "thorough" {
				pb, rb = 3, 2
			}
			var sp []mc.Space
			for di, d := range c05Get() {
				sp = append(sp, mc.Space{Name: d.name, H: c05Harness(di), Bound: pb, Isolate: true, SplitDepth: 1,
					Rule: d.what + fmt.Sprintf("; every schedule with <= %d preemptions and pool-answer deviations; oracles: deadlock, panic, each result equals its sequential result", pb)})
			}
			sp = append(sp, mc.Space{Name: "H10-first-calls-of-a-process", H: c05FirstUse, Bound: 1, Isolate: true, SplitDepth: 1,
				Rule: "for each of 18 entry points E: E(A) || E(B) as the first two calls a fresh process makes (one child process per execution, scheduled by the parent's explorer; every schedule with <= 1 preemption or pool-answer deviation), the sequential reference computed in the same child afterwards: lazily built state must be built safely"})
			sp = append(sp, mc.Space{Name: "H11-after-a-call-that-leaves-a-pool-holding-one-object-twice", H: c05AfterDuplicates, NoLevels: true, Isolate: true, SplitDepth: 1,
				Rule: "every input of C04's victim list (every seed, cuts, single-field malformations, JPEG marker structures, degenerate records, re-entrant calls x entry points) run alone; whenever a pool afterwards holds one object twice: Decode(TIFF) || Decode(JPEG) under every schedule with one preemption, each result compared with its sequential result"})
			sp = append(sp, mc.Space{Name: "H12-the-same-malformed-input-twice", H: c05MalformedPairs, Bound: 1, Isolate: true, SplitDepth: 1,
				Rule: "every single-field malformation of every generated seed below 6 KB, decoded by two threads at once (error paths build results too); each result compared with the sequential one"})
			if raceBin != "" {
				sp = append(sp, mc.Space{Name: "H12-the-same-malformed-input-twice/race-detector", H: c05MalformedPairs, Bound: 1, Isolate: true, SplitDepth: 1, Binary: raceBin, Env: raceEnv,
					Rule: "the same in the -race build: a mutable value shared by an error path (a package-level error, a scratch area) is a write/write race whatever the schedule"})
				sp = append(sp, mc.Space{Name: "H10-first-calls-of-a-process/race-detector", H: c05FirstUse, Bound: 0, Isolate: true, SplitDepth: 1, Binary: raceBin, Env: raceEnv,
					Rule: "the same with the child built with -race: the detector judges the first calls of every fresh process (default schedule; its verdict on unsynchronised accesses does not depend on the schedule unless control flow does)"})
				for di, d := range c05Get() {
					sp = append(sp, mc.Space{Name: d.name + "/race-detector", H: c05Harness(di), Bound: rb, Isolate: true, SplitDepth: 1, Binary: raceBin, Env: raceEnv,
						Rule: fmt.Sprintf("the same driver in the -race build: the race detector judges every schedule with <= %d preemptions (scheduler hand-offs are invisible to it)", rb)})
				}
				if tier == "thorough" {
					sp = append(sp, mc.Space{Name: "free-running-stress/race-detector (auxiliary)", H: c05Free, NoLevels: true, Isolate: true, SplitDepth: 1, Binary: raceBin, Env: raceEnv, Serial: true,
						Rule: "auxiliary, not the deciding step: 16 copies of each driver's threads on free-running goroutines, GOMAXPROCS in {1,4,16}, 8 repetitions, under the race detector"})
				}
			}
			return sp
		},
		Assumptions: []string{
			"scheduling points: every sync.Pool / Mutex / RWMutex operation of the library (import rewritten to the vsync shim through go build -overlay) and every Read/Seek/ReadAt of the harness readers; between two points a thread runs alone, unsynchronised accesses there are judged by the race detector's happens-before analysis in the -race pass",
			"the library starts no goroutines and uses no sync/atomic on the explored paths (overlaygen reports any it finds)",
			"more than 4 threads and real multi-core timing are not explored; SetLogger concurrent with decoding is outside the statement",
		},
		Extra: func(cov map[string]interface{}) {
			if b, err := os.ReadFile(verifDir() + "/.build/overlay-report.json"); err == nil {
				cov["overlay_report"] = string(b)
			}
		},
	})
}
