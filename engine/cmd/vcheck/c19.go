package main

// C19 — a perceptual hash is its defined function of the pixels; wrong sizes
// and nil are rejected; distances are Hamming distances.
//
// Enumerated: a finite image family (12 pixel formats (RGBA, NRGBA at alpha 200, Gray, YCbCr 4:4:4 and 4:2:0, NRGBA and RGBA with fully transparent pixels, Gray16, RGBA64, Paletted, CMYK, NYCbCrA 4:2:2) x 4 rectangle placements
// x ~470 contents per hash size), every size in a window around the required
// one (each followed by a valid call: history), and all triples of a hash set.
// Reference: independent float64 separable DCT-II of the documented luminance.

import (
	"fmt"
	"image"
	"image/color"
	"math"
	"math/bits"
	"os"
	"runtime/debug"
	"sort"

	"verif/guardmem"
	"verif/mc"

	"github.com/evanoberholster/imagemeta/imagehash"
	"github.com/evanoberholster/imagemeta/imagehash/transforms"
	"github.com/evanoberholster/imagemeta/imagehash/transforms32"
	"github.com/evanoberholster/imagemeta/verifshim/vsync"
)

// ---- image family ----

const (
	kRGBA = iota
	kNRGBA
	kGray
	kYCbCr
	kNRGBAHoles
	kRGBAHoles
	kYCbCr420
	kGray16
	kRGBA64
	kPaletted
	kCMYK
	kNYCbCrA
	nKinds
)

var kindName = []string{"RGBA", "NRGBA", "Gray", "YCbCr444", "NRGBA with fully transparent pixels", "RGBA with fully transparent pixels", "YCbCr420", "Gray16", "RGBA64", "Paletted", "CMYK", "NYCbCrA"}

const nOrigins = 4

var originName = []string{"origin(0,0)", "origin(5,3)", "origin(-7,2)", "sub-image at (8,8) of a larger image"}

type content struct {
	name string
	f    func(x, y int) uint8
}

func clamp8(v float64) uint8 {
	if v < 0 {
		return 0
	}
	if v > 255 {
		return 255
	}
	return uint8(v + 0.5)
}

func lcgByte(seed uint64, x, y int) uint8 {
	s := seed*0x9E3779B97F4A7C15 + uint64(x)*0xBF58476D1CE4E5B9 + uint64(y)*0x94D049BB133111EB
	s ^= s >> 31
	s *= 0xD6E8FEB86659FD93
	s ^= s >> 29
	return uint8(s >> 24)
}

// contents lists the content family for an n x n image with an l x l low block.
func contents(n, l int) []content {
	cs := []content{}
	bas := func(x, u int) float64 { return math.Cos(math.Pi / float64(n) * (float64(x) + 0.5) * float64(u)) }
	for _, c := range []uint8{0, 128, 255} {
		c := c
		cs = append(cs, content{fmt.Sprintf("constant %d", c), func(x, y int) uint8 { return c }})
	}
	for _, amp := range []float64{10, 100} {
		for v := 0; v < l; v++ {
			for u := 0; u < l; u++ {
				amp, u, v := amp, u, v
				cs = append(cs, content{fmt.Sprintf("128+%g*basis(u=%d,v=%d)", amp, u, v), func(x, y int) uint8 { return clamp8(128 + amp*bas(x, u)*bas(y, v)) }})
			}
		}
	}
	for _, amp := range []float64{40, 255} {
		for v := 0; v < l; v++ {
			for u := 0; u < l; u++ {
				amp, u, v := amp, u, v
				cs = append(cs, content{fmt.Sprintf("max(0,%g*basis(u=%d,v=%d)) on black", amp, u, v), func(x, y int) uint8 { return clamp8(amp * bas(x, u) * bas(y, v)) }})
			}
		}
	}
	for v := 0; v < l; v++ {
		for u := 0; u < l; u++ {
			u, v := u, v
			u2, v2 := (u+1)%l, (v+l-1)%l
			cs = append(cs, content{fmt.Sprintf("128+60*basis(%d,%d)+50*basis(%d,%d)", u, v, u2, v2), func(x, y int) uint8 {
				return clamp8(128 + 60*bas(x, u)*bas(y, v) + 50*bas(x, u2)*bas(y, v2))
			}})
		}
	}
	cs = append(cs,
		content{"horizontal ramp", func(x, y int) uint8 { return uint8(x * 255 / (n - 1)) }},
		content{"vertical ramp", func(x, y int) uint8 { return uint8(y * 255 / (n - 1)) }},
		content{"diagonal ramp", func(x, y int) uint8 { return uint8((x + y) * 255 / (2*n - 2)) }},
	)
	for _, p := range []int{1, 2, 32} {
		p := p
		cs = append(cs, content{fmt.Sprintf("checkerboard period %d", p), func(x, y int) uint8 {
			if (x/p+y/p)%2 == 0 {
				return 255
			}
			return 0
		}})
	}
	step := n / 8
	for gy := 0; gy < 8; gy++ {
		for gx := 0; gx < 8; gx++ {
			px, py := gx*step+step/3, gy*step+step/2
			cs = append(cs, content{fmt.Sprintf("single bright pixel at (%d,%d)", px, py), func(x, y int) uint8 {
				if x == px && y == py {
					return 255
				}
				return 0
			}})
			cs = append(cs, content{fmt.Sprintf("single dark pixel at (%d,%d) on white", px, py), func(x, y int) uint8 {
				if x == px && y == py {
					return 0
				}
				return 255
			}})
		}
	}
	for s := uint64(1); s <= 8; s++ {
		s := s
		cs = append(cs, content{fmt.Sprintf("fixed noise image #%d", s), func(x, y int) uint8 { return lcgByte(s, x, y) }})
	}
	return cs
}

// buildImage makes the image of the given kind and placement whose pixel at
// rectangle-relative (x,y) is derived from c.f(x,y).  Everything outside the
// rectangle (sub-image case) holds unrelated bytes.
func buildImage(kind, origin, n int, c content) image.Image {
	var r image.Rectangle
	switch origin {
	case 0:
		r = image.Rect(0, 0, n, n)
	case 1:
		r = image.Rect(5, 3, 5+n, 3+n)
	case 2:
		r = image.Rect(-7, 2, -7+n, 2+n)
	case 3:
		r = image.Rect(0, 0, n+16, n+16)
	}
	sub := image.Rect(8, 8, 8+n, 8+n)
	val := func(X, Y int) (uint8, bool) {
		if origin == 3 {
			if !(image.Point{X, Y}.In(sub)) {
				return lcgByte(99, X, Y) | 1, false
			}
			return c.f(X-8, Y-8), true
		}
		return c.f(X-r.Min.X, Y-r.Min.Y), true
	}
	switch kind {
	case kRGBA, kRGBAHoles:
		m := image.NewRGBA(r)
		for Y := r.Min.Y; Y < r.Max.Y; Y++ {
			for X := r.Min.X; X < r.Max.X; X++ {
				v, in := val(X, Y)
				c := color.RGBA{v, v, v, 255}
				if kind == kRGBAHoles {
					rx, ry := X-r.Min.X, Y-r.Min.Y
					if origin == 3 {
						rx, ry = X-8, Y-8
					}
					c = color.RGBA{v, 255 - v, v / 3, 255}
					if in && ((rx*5+ry*3)%11 == 0 || v == 0) {
						c = color.RGBA{} // fully transparent, premultiplied black
					}
				}
				m.SetRGBA(X, Y, c)
			}
		}
		if origin == 3 {
			return m.SubImage(sub)
		}
		return m
	case kNRGBA, kNRGBAHoles:
		m := image.NewNRGBA(r)
		for Y := r.Min.Y; Y < r.Max.Y; Y++ {
			for X := r.Min.X; X < r.Max.X; X++ {
				v, _ := val(X, Y)
				a := uint8(200)
				if kind == kNRGBAHoles {
					a = 255
					rx, ry := X-r.Min.X, Y-r.Min.Y
					if origin == 3 {
						rx, ry = X-8, Y-8
					}
					if (rx*3+ry*5)%7 == 0 || v == 0 {
						a = 0 // fully transparent: luminance 0 whatever the colour
					}
				}
				m.SetNRGBA(X, Y, color.NRGBA{v, 255 - v, v / 2, a})
			}
		}
		if origin == 3 {
			return m.SubImage(sub)
		}
		return m
	case kGray:
		m := image.NewGray(r)
		for Y := r.Min.Y; Y < r.Max.Y; Y++ {
			for X := r.Min.X; X < r.Max.X; X++ {
				v, _ := val(X, Y)
				m.SetGray(X, Y, color.Gray{v})
			}
		}
		if origin == 3 {
			return m.SubImage(sub)
		}
		return m
	case kGray16, kRGBA64, kPaletted, kCMYK, kNYCbCrA:
		// formats that take the generic image.Image path
		var m interface {
			image.Image
			Set(x, y int, c color.Color)
		}
		switch kind {
		case kGray16:
			m = image.NewGray16(r)
		case kRGBA64:
			m = image.NewRGBA64(r)
		case kPaletted:
			pal := make(color.Palette, 256)
			for i := range pal {
				pal[i] = color.RGBA{uint8(i), uint8(255 - i), uint8(i / 2), 255}
			}
			m = image.NewPaletted(r, pal)
		case kCMYK:
			m = image.NewCMYK(r)
		case kNYCbCrA:
			n := image.NewNYCbCrA(r, image.YCbCrSubsampleRatio422)
			for i := range n.A {
				n.A[i] = 0xff
			}
			for i := range n.Cb {
				n.Cb[i], n.Cr[i] = 128, 128
			}
			for Y := r.Min.Y; Y < r.Max.Y; Y++ {
				for X := r.Min.X; X < r.Max.X; X++ {
					v, _ := val(X, Y)
					n.Y[n.YOffset(X, Y)] = v
					rx, ry := X-r.Min.X, Y-r.Min.Y
					if origin == 3 {
						rx, ry = X-8, Y-8
					}
					if (rx+ry)%9 == 0 {
						n.A[n.AOffset(X, Y)] = v
					}
				}
			}
			if origin == 3 {
				return n.SubImage(sub)
			}
			return n
		}
		for Y := r.Min.Y; Y < r.Max.Y; Y++ {
			for X := r.Min.X; X < r.Max.X; X++ {
				v, _ := val(X, Y)
				switch kind {
				case kGray16:
					m.Set(X, Y, color.Gray16{uint16(v)*257 - uint16(v%3)})
				case kRGBA64:
					m.Set(X, Y, color.RGBA64{uint16(v) * 257, uint16(255-v) * 200, uint16(v) * 100, 0xffff})
				case kPaletted:
					m.(*image.Paletted).SetColorIndex(X, Y, v)
				case kCMYK:
					m.Set(X, Y, color.CMYK{v, 255 - v, v / 2, 10})
				}
			}
		}
		if origin == 3 {
			return m.(interface {
				SubImage(image.Rectangle) image.Image
			}).SubImage(sub)
		}
		return m
	default:
		ratio := image.YCbCrSubsampleRatio444
		if kind == kYCbCr420 {
			ratio = image.YCbCrSubsampleRatio420
		}
		m := image.NewYCbCr(r, ratio)
		for Y := r.Min.Y; Y < r.Max.Y; Y++ {
			for X := r.Min.X; X < r.Max.X; X++ {
				v, in := val(X, Y)
				i := m.YOffset(X, Y)
				m.Y[i] = v
				rx, ry := X-r.Min.X, Y-r.Min.Y
				if origin == 3 {
					rx, ry = X-8, Y-8
				}
				if in && kind == kYCbCr420 {
					// chroma samples are shared by 2x2 pixels: neutral chroma keeps the pixels
					// identical whatever the parity of the rectangle origin
					m.Cb[m.COffset(X, Y)], m.Cr[m.COffset(X, Y)] = 128, 128
				} else if in {
					m.Cb[m.COffset(X, Y)] = uint8(128 + (rx*3+ry)%32 - 16)
					m.Cr[m.COffset(X, Y)] = uint8(128 - (rx+2*ry)%24 + 12)
				} else {
					m.Cb[m.COffset(X, Y)] = v ^ 0x5a
					m.Cr[m.COffset(X, Y)] = v ^ 0xa5
				}
			}
		}
		if origin == 3 {
			return m.SubImage(sub)
		}
		return m
	}
}

// lumYCbCr is the documented (unclamped integer) luminance of the YCbCr fast path.
func lumYCbCr(yy, cb, cr uint8) float64 {
	yy1 := int32(yy) * 0x10101
	cb1 := int32(cb) - 128
	cr1 := int32(cr) - 128
	r := yy1 + 91881*cr1
	g := yy1 - 22554*cb1 - 46802*cr1
	b := yy1 + 116130*cb1
	return 0.299*float64(r/257) + 0.587*float64(g/257) + 0.114*float64(b>>8)
}

// lumRGBA is the documented luminance of a colour's RGBA() components.
func lumRGBA(r, g, b uint32) float64 {
	return 0.299*float64(r/257) + 0.587*float64(g/257) + 0.114*float64(b/256)
}

// luminance returns the rectangle-relative luminance array the hash is defined on.
func luminance(img image.Image) []float64 {
	b := img.Bounds()
	n := b.Dx()
	out := make([]float64, n*b.Dy())
	if yc, ok := img.(*image.YCbCr); ok {
		for y := 0; y < b.Dy(); y++ {
			for x := 0; x < n; x++ {
				X, Y := b.Min.X+x, b.Min.Y+y
				out[y*n+x] = lumYCbCr(yc.Y[yc.YOffset(X, Y)], yc.Cb[yc.COffset(X, Y)], yc.Cr[yc.COffset(X, Y)])
			}
		}
		return out
	}
	for y := 0; y < b.Dy(); y++ {
		for x := 0; x < n; x++ {
			r, g, bb, _ := img.At(b.Min.X+x, b.Min.Y+y).RGBA()
			out[y*n+x] = lumRGBA(r, g, bb)
		}
	}
	return out
}

// refLowDCT is the l x l low-frequency block of the 2-D DCT-II of an n x n
// array, flattened row-major with the vertical frequency as the row.
func refLowDCT(x []float64, n, l int) []float64 {
	ct := make([]float64, l*n) // ct[u*n+p] = cos(pi/n (p+1/2) u)
	for u := 0; u < l; u++ {
		for p := 0; p < n; p++ {
			ct[u*n+p] = math.Cos(math.Pi / float64(n) * (float64(p) + 0.5) * float64(u))
		}
	}
	tmp := make([]float64, n*l) // tmp[r*l+u]
	for r := 0; r < n; r++ {
		row := x[r*n : r*n+n]
		for u := 0; u < l; u++ {
			var s float64
			c := ct[u*n : u*n+n]
			for p, v := range row {
				s += v * c[p]
			}
			tmp[r*l+u] = s
		}
	}
	out := make([]float64, l*l)
	for v := 0; v < l; v++ {
		c := ct[v*n : v*n+n]
		for u := 0; u < l; u++ {
			var s float64
			for r := 0; r < n; r++ {
				s += tmp[r*l+u] * c[r]
			}
			out[v*l+u] = s
		}
	}
	return out
}

func l1(x []float64) float64 {
	var s float64
	for _, v := range x {
		s += math.Abs(v)
	}
	return s
}

// hashBits turns a 64- or 256-bit hash into per-coefficient booleans (MSB first).
func bits64(h imagehash.PHash64) []bool {
	out := make([]bool, 64)
	for i := range out {
		out[i] = uint64(h)>>(63-uint(i))&1 == 1
	}
	return out
}

func bits256(h imagehash.PHash256) []bool {
	out := make([]bool, 256)
	for i := range out {
		out[i] = h[i/64]>>(63-uint(i%64))&1 == 1
	}
	return out
}

// judgeHash checks the threshold-function law; it returns failure kinds and
// the number of coefficients decided by the margin.
func judgeHash(bitsv []bool, c []float64, tau float64) (kind, detail string, decided int) {
	s := append([]float64(nil), c...)
	sort.Float64s(s)
	upper, lower := s[len(s)/2], s[len(s)/2-1]
	maxClear, minSet := math.Inf(-1), math.Inf(1)
	ic, is := -1, -1
	for i, v := range c {
		if v > upper+tau {
			decided++
			if !bitsv[i] {
				return "upper-half coefficient cleared", fmt.Sprintf("coefficient %d = %g >= upper median %g + margin %g but its bit is clear", i, v, upper, tau), decided
			}
		}
		if v < lower-tau {
			decided++
			if bitsv[i] {
				return "coefficient clearly below the median is set", fmt.Sprintf("coefficient %d = %g <= lower median %g - margin %g but its bit is set", i, v, lower, tau), decided
			}
		}
		if bitsv[i] && v < minSet {
			minSet, is = v, i
		}
		if !bitsv[i] && v > maxClear {
			maxClear, ic = v, i
		}
	}
	if ic >= 0 && is >= 0 && maxClear > minSet+2*tau {
		return "set bits are not an upper set of the coefficients", fmt.Sprintf("coefficient %d = %g is clear while coefficient %d = %g is set (margin %g)", ic, maxClear, is, minSet, tau), decided
	}
	return "", "", decided
}

type hashFns struct {
	name    string
	n, l    int
	primary func(image.Image) ([]bool, error)
	alt     func(image.Image) ([]bool, error)
	zeroP   func(image.Image) (bool, error) // hash value is zero
	zeroA   func(image.Image) (bool, error)
	poolLen int
}

var hashSizes = []hashFns{
	{"PHash64", 64, 8,
		func(m image.Image) ([]bool, error) { h, err := imagehash.NewPHash64(m); return bits64(h), err },
		func(m image.Image) ([]bool, error) { h, err := imagehash.NewPHash64Alt(m); return bits64(h), err },
		func(m image.Image) (bool, error) { h, err := imagehash.NewPHash64(m); return h == 0, err },
		func(m image.Image) (bool, error) { h, err := imagehash.NewPHash64Alt(m); return h == 0, err }, 4096},
	{"PHash256", 256, 16,
		func(m image.Image) ([]bool, error) { h, err := imagehash.NewPHash256(m); return bits256(h), err },
		func(m image.Image) ([]bool, error) { h, err := imagehash.NewPHash256Alt(m); return bits256(h), err },
		func(m image.Image) (bool, error) {
			h, err := imagehash.NewPHash256(m)
			return h == imagehash.PHash256{}, err
		},
		func(m image.Image) (bool, error) {
			h, err := imagehash.NewPHash256Alt(m)
			return h == imagehash.PHash256{}, err
		}, 65536},
}

// The four pixel pools of package imagehash are found through the shim's
// registry (by element type and length) after one valid call of each hash
// function; afterwards every execution starts with one guard-page-backed
// buffer in each pool, so that a conversion or transform that writes outside
// the pixel buffer faults (recoverable) instead of corrupting the heap.
var pixPools struct {
	done  bool
	pools [4]*vsync.Pool
	f64   [2]*guardmem.Buf
	f32   [2]*guardmem.Buf
	s64   [2][]float64
	s32   [2][]float32
}

func findPixelPools() {
	if pixPools.done {
		return
	}
	pixPools.done = true
	vsync.ResetPools()
	for _, hf := range hashSizes {
		m := image.NewGray(image.Rect(0, 0, hf.n, hf.n))
		hf.primary(m)
		hf.alt(m)
	}
	for _, p := range vsync.Pools() {
		for _, it := range p.Items() {
			switch t := it.(type) {
			case *[]float64:
				if len(*t) == 4096 {
					pixPools.pools[0] = p
				} else if len(*t) == 65536 {
					pixPools.pools[1] = p
				}
			case *[]float32:
				if len(*t) == 4096 {
					pixPools.pools[2] = p
				} else if len(*t) == 65536 {
					pixPools.pools[3] = p
				}
			}
		}
	}
	for i, n := range []int{4096, 65536} {
		pixPools.f64[i] = guardmem.Alloc(8*n, false, 32)
		pixPools.f32[i] = guardmem.Alloc(4*n, false, 32)
		pixPools.s64[i] = pixPools.f64[i].Float64s()
		pixPools.s32[i] = pixPools.f32[i].Float32s()
	}
}

// hashPristine resets all library state and seeds the pixel pools with the
// guarded buffers (zeroed).
func hashPristine() {
	findPixelPools()
	pristine()
	for i := 0; i < 2; i++ {
		for k := range pixPools.s64[i] {
			pixPools.s64[i][k] = 0
		}
		for k := range pixPools.s32[i] {
			pixPools.s32[i][k] = 0
		}
		if p := pixPools.pools[i]; p != nil {
			p.Put(&pixPools.s64[i])
		}
		if p := pixPools.pools[2+i]; p != nil {
			p.Put(&pixPools.s32[i])
		}
	}
}

// poisonPixelPools overwrites every pooled pixel buffer.
func poisonPixelPools(v float64) int {
	n := 0
	for _, p := range vsync.Pools() {
		for _, it := range p.Items() {
			switch t := it.(type) {
			case *[]float64:
				for i := range *t {
					(*t)[i] = v
				}
				n++
			case *[]float32:
				for i := range *t {
					(*t)[i] = float32(v)
				}
				n++
			}
		}
	}
	return n
}

func boolsEq(a, b []bool) bool {
	if len(a) != len(b) {
		return false
	}
	for i := range a {
		if a[i] != b[i] {
			return false
		}
	}
	return true
}

func bitsHex(b []bool) string {
	out := ""
	for i := 0; i < len(b); i += 4 {
		v := 0
		for k := 0; k < 4; k++ {
			v <<= 1
			if b[i+k] {
				v |= 1
			}
		}
		out += fmt.Sprintf("%x", v)
	}
	return out
}

// c19Family is one execution per (hash size, kind, placement, content).
func c19Family(hi int, kinds, origins []int) mc.Harness {
	hf := &hashSizes[hi]
	cs := contents(hf.n, hf.l)
	return func(x *mc.Exec) {
		debug.SetPanicOnFault(true)
		ci := x.All("content", len(cs))
		kind := kinds[x.All("pixel-format", len(kinds))]
		origin := origins[x.All("placement", len(origins))]
		c := cs[ci]
		hashPristine()
		where := fmt.Sprintf("%s %s, %s, %s", hf.name, kindName[kind], originName[origin], c.name)
		x.Note("image", where)
		x.InputID = hashBytes([]byte{byte(hi), byte(kind), byte(origin), byte(ci), byte(ci >> 8), 0x19})
		img := buildImage(kind, origin, hf.n, c)
		lum := luminance(img)
		ref := refLowDCT(lum, hf.n, hf.l)
		norm := l1(lum)
		fail := func(kindS, msg string) {
			x.Fail("mismatch|"+hf.name+"|"+kindS, where+": "+msg, map[string]string{"image": where})
		}
		var hp, ha []bool
		var errP, errA error
		if pi := mc.Guard(func() { hp, errP = hf.primary(img) }); pi != nil {
			fail("panic in primary|"+pi.Func+"|"+pi.Class, pi.Value)
			x.Outcome = "panic"
			return
		}
		if pi := mc.Guard(func() { ha, errA = hf.alt(img) }); pi != nil {
			fail("panic in alternative|"+pi.Func+"|"+pi.Class, pi.Value)
			x.Outcome = "panic"
			return
		}
		if errP != nil || errA != nil {
			fail("valid image rejected", fmt.Sprintf("primary err=%v alternative err=%v", errP, errA))
			return
		}
		tauP := 1e-11*norm + 1e-9
		tauA := 4e-5*norm + 1e-9
		// the alternative path rounds the luminance to float32, and on the
		// YCbCr fast path may use the assembly conversion: add the measured
		// distance between what the dispatching conversion produced and lum
		px := make([]float32, hf.n*hf.n)
		var dist float64
		if pi := mc.Guard(func() { transforms32.ImageToGray(img, &px) }); pi == nil {
			// the conversion itself must give the documented luminance of the pixels: exactly (up to
			// float32 rounding) for every format but YCbCr, within 2.0 per pixel for YCbCr (C20)
			tol := 1e-3
			if kind == kYCbCr || kind == kYCbCr420 {
				tol = 2.0
			}
			for i := range px {
				d := math.Abs(float64(px[i]) - lum[i])
				if d > tol+1.2e-7*math.Abs(lum[i]) || d != d {
					fail("alternative: gray conversion differs from the documented luminance of the pixel", fmt.Sprintf("pixel (%d,%d): converted %g, documented luminance %g", i%hf.n, i/hf.n, px[i], lum[i]))
					return
				}
				dist += d
			}
		} else {
			fail("panic in gray conversion|"+pi.Func+"|"+pi.Class, pi.Value)
			return
		}
		tauA += dist
		px64 := make([]float64, hf.n*hf.n)
		if pi := mc.Guard(func() { transforms.Rgb2GrayFast(img, &px64) }); pi != nil {
			fail("panic in gray conversion|"+pi.Func+"|"+pi.Class, pi.Value)
			return
		}
		for i := range px64 {
			if d := math.Abs(px64[i] - lum[i]); d > 1e-9+1e-15*math.Abs(lum[i]) || d != d {
				fail("primary: gray conversion differs from the documented luminance of the pixel", fmt.Sprintf("pixel (%d,%d): converted %g, documented luminance %g", i%hf.n, i/hf.n, px64[i], lum[i]))
				return
			}
		}
		decided := 0
		if k, d, n := judgeHash(hp, ref, tauP); k != "" {
			fail("primary: "+k, d+" hash="+bitsHex(hp))
		} else {
			decided += n
		}
		if k, d, n := judgeHash(ha, ref, tauA); k != "" {
			fail("alternative: "+k, d+" hash="+bitsHex(ha))
		} else {
			decided += n
		}
		// primary and alternative may differ only near the threshold
		s := append([]float64(nil), ref...)
		sort.Float64s(s)
		med := (s[len(s)/2] + s[len(s)/2-1]) / 2
		half := (s[len(s)/2] - s[len(s)/2-1]) / 2
		for i := range hp {
			if hp[i] != ha[i] && math.Abs(ref[i]-med) > half+tauP+tauA {
				fail("primary and alternative differ away from the threshold", fmt.Sprintf("bit %d: coefficient %g, median %g, margin %g", i, ref[i], med, half+tauP+tauA))
				break
			}
		}
		// repeated calls agree exactly (second call sees the first call's pooled buffer)
		for rep := 0; rep < 2; rep++ {
			if rep == 1 {
				poisonPixelPools(math.NaN())
			}
			var hp2, ha2 []bool
			if pi := mc.Guard(func() { hp2, _ = hf.primary(img); ha2, _ = hf.alt(img) }); pi != nil {
				fail("panic on repeated call|"+pi.Func+"|"+pi.Class, pi.Value)
				break
			}
			if !boolsEq(hp, hp2) || !boolsEq(ha, ha2) {
				fail(map[int]string{0: "repeated call differs", 1: "result depends on pooled buffer contents"}[rep],
					fmt.Sprintf("primary %s then %s; alternative %s then %s", bitsHex(hp), bitsHex(hp2), bitsHex(ha), bitsHex(ha2)))
				break
			}
		}
		// a placement other than the origin must hash like the same pixels at the origin
		if origin != 0 {
			img0 := buildImage(kind, 0, hf.n, c)
			var hp0, ha0 []bool
			if pi := mc.Guard(func() { hp0, _ = hf.primary(img0); ha0, _ = hf.alt(img0) }); pi == nil {
				if !boolsEq(hp, hp0) {
					fail("primary: placement changes the hash", fmt.Sprintf("at origin %s, here %s", bitsHex(hp0), bitsHex(hp)))
				}
				// The alternative path may convert the at-origin copy with the
				// assembly (within 2.0 per pixel of the portable conversion, C20)
				// and this placement with the portable code: if the two luminance
				// arrays differ, bits may differ only within the combined margin.
				px0 := make([]float32, hf.n*hf.n)
				same := true
				var dist0 float64
				if pi := mc.Guard(func() { transforms32.ImageToGray(img0, &px0) }); pi != nil {
					same = false
				}
				for i := range px0 {
					if math.Float32bits(px0[i]) != math.Float32bits(px[i]) {
						same = false
					}
					dist0 += math.Abs(float64(px0[i]) - lum[i])
				}
				if same {
					if !boolsEq(ha, ha0) {
						fail("alternative: placement changes the hash", fmt.Sprintf("at origin %s, here %s", bitsHex(ha0), bitsHex(ha)))
					}
				} else {
					for i := range ha {
						if ha[i] != ha0[i] && math.Abs(ref[i]-med) > half+tauA+4e-5*norm+1e-9+dist0 {
							fail("alternative: placement changes the hash away from the threshold", fmt.Sprintf("bit %d: coefficient %g, median %g; at origin %s, here %s", i, ref[i], med, bitsHex(ha0), bitsHex(ha)))
							break
						}
					}
				}
			}
		}
		x.Bulk = 7
		x.Outcome = fmt.Sprintf("%s decided=%d/%d", bitsHex(hp)[:4], decided/16, len(ref)*2/16)
	}
}

// c19Sizes: every size in the window is offered to the four functions.
func c19Sizes(hi int, lo, hiW int, extra int) mc.Harness {
	hf := &hashSizes[hi]
	span := hiW - lo + 1
	cs := contents(hf.n, hf.l)
	good := buildImage(kGray, 0, hf.n, cs[3+5])
	return func(x *mc.Exec) {
		debug.SetPanicOnFault(true)
		var w, h int
		mode := x.All("window", 4)
		switch mode {
		case 0:
			w, h = lo+x.All("w", span), lo+x.All("h", span)
		case 1:
			w, h = hf.n, x.All("h", extra+1)
		case 2:
			w, h = x.All("w", extra+1), hf.n
		case 3:
			// sizes related to the required one by arithmetic a guard could get wrong: same pixel count,
			// same perimeter, halves and doubles, the other hash size
			sp := c19SpecialSizes(hf.n)
			p := sp[x.All("special-size", len(sp))]
			w, h = p[0], p[1]
		}
		kind := x.All("pixel-format", 3) // Gray, RGBA, YCbCr 4:2:0
		hist := x.All("history", 3)      // pristine, after a valid hash, poisoned pools
		hashPristine()
		where := fmt.Sprintf("%s size %dx%d %s history %d", hf.name, w, h, []string{"Gray", "RGBA", "YCbCr420"}[kind], hist)
		x.InputID = hashBytes([]byte{byte(hi), byte(w), byte(w >> 8), byte(h), byte(h >> 8), byte(kind), byte(hist), 0x51})
		fail := func(kindS, msg string) {
			x.Fail("mismatch|"+hf.name+"|"+kindS, where+": "+msg, map[string]string{"case": where})
		}
		var goodP, goodA []bool
		if pi := mc.Guard(func() { goodP, _ = hf.primary(good); goodA, _ = hf.alt(good) }); pi != nil {
			fail("panic on the reference image|"+pi.Func+"|"+pi.Class, pi.Value)
			return
		}
		switch hist {
		case 0:
			hashPristine()
		case 2:
			poisonPixelPools(12345.678)
		}
		var img image.Image
		r := image.Rect(0, 0, w, h)
		switch kind {
		case 0:
			m := image.NewGray(r)
			for i := range m.Pix {
				m.Pix[i] = lcgByte(7, i, w)
			}
			img = m
		case 1:
			m := image.NewRGBA(r)
			for i := range m.Pix {
				m.Pix[i] = lcgByte(8, i, h)
			}
			img = m
		case 2:
			m := image.NewYCbCr(r, image.YCbCrSubsampleRatio420)
			for i := range m.Y {
				m.Y[i] = lcgByte(9, i, w)
			}
			for i := range m.Cb {
				m.Cb[i], m.Cr[i] = lcgByte(10, i, w), lcgByte(11, i, h)
			}
			img = m
		}
		exact := w == hf.n && h == hf.n
		x.Outcome = fmt.Sprintf("exact=%v", exact)
		for fi, f := range []func(image.Image) (bool, error){hf.zeroP, hf.zeroA} {
			fname := []string{"primary", "alternative"}[fi]
			var zero bool
			var err error
			if pi := mc.Guard(func() { zero, err = f(img) }); pi != nil {
				fail(fname+": panic on a wrong-sized image|"+pi.Class, pi.Value)
				continue
			}
			if exact {
				if err != nil {
					fail(fname+": valid image rejected", err.Error())
				}
				continue
			}
			if err == nil {
				fail(fname+": wrong size accepted", "no error")
			} else if !zero {
				fail(fname+": error together with a non-zero hash", err.Error())
			}
		}
		// the next valid call is unaffected
		var p2, a2 []bool
		if pi := mc.Guard(func() { p2, _ = hf.primary(good); a2, _ = hf.alt(good) }); pi != nil {
			fail("panic on the valid call after a rejected one|"+pi.Class, pi.Value)
		} else if !boolsEq(p2, goodP) || !boolsEq(a2, goodA) {
			fail("valid call after a rejected one differs from pristine", fmt.Sprintf("%s vs %s / %s vs %s", bitsHex(p2), bitsHex(goodP), bitsHex(a2), bitsHex(goodA)))
		}
		x.Bulk = 5
	}
}

func c19SpecialSizes(n int) [][2]int {
	var out [][2]int
	add := func(w, h int) {
		if w >= 0 && h >= 0 && w*h <= 1<<20 && !(w == n && h == n) {
			out = append(out, [2]int{w, h})
		}
	}
	for d := 1; d <= n*n; d++ { // every divisor pair of n*n: same pixel count
		if (n*n)%d == 0 {
			add(d, n*n/d)
		}
	}
	for d := 1; d < 2*n; d++ { // same perimeter
		add(d, 2*n-d)
	}
	for _, k := range []int{n / 2, 2 * n, n * n, 8, 16, 32, 64, 128, 256, 512} {
		add(k, k)
		add(k, n)
		add(n, k)
		add(k, 2*n)
	}
	add(n*n, 0)
	add(0, n*n)
	return out
}

func c19Nil(x *mc.Exec) {
	hi := x.All("hash", 2)
	hf := &hashSizes[hi]
	which := x.All("nil-kind", 2) // untyped nil, typed nil pointer inside the interface
	hashPristine()
	x.Outcome = "nil"
	x.InputID = hashBytes([]byte{byte(hi), byte(which), 0x71})
	var img image.Image
	if which == 1 {
		// a nil *image.Gray in the interface is not a nil image.Image; Bounds() on it panics
		// inside the standard library, which the statement does not cover: only the untyped nil is judged
		x.Trivial = true
		return
	}
	for fi, f := range []func(image.Image) (bool, error){hf.zeroP, hf.zeroA} {
		var zero bool
		var err error
		fname := hf.name + []string{" primary", " alternative"}[fi]
		if pi := mc.Guard(func() { zero, err = f(img) }); pi != nil {
			x.Fail("mismatch|"+hf.name+"|nil image: panic|"+pi.Class, fname+" panicked on a nil image: "+pi.Value, nil)
		} else if err == nil || !zero {
			x.Fail("mismatch|"+hf.name+"|nil image accepted", fmt.Sprintf("%s(nil): err=%v zero=%v", fname, err, zero), nil)
		}
	}
}

// c19Distance: Hamming-distance laws on all triples of a bit-walk hash set.
func c19Distance(x *mc.Exec) {
	var set []uint64
	set = append(set, 0, ^uint64(0), 0xAAAAAAAAAAAAAAAA, 0x5555555555555555, 0x8000000000000000, 1)
	for i := 0; i < 64; i++ {
		set = append(set, 1<<uint(i), ^(uint64(1) << uint(i)), (1<<uint(i))-1)
	}
	for i := 0; i < 8; i++ {
		set = append(set, uint64(0xFF)<<(8*uint(i)), 0x0123456789ABCDEF<<uint(i)|0x0123456789ABCDEF>>(64-uint(i)))
	}
	ai := x.All("a", len(set))
	a := set[ai]
	fs := newFailSet("imagehash.Distance")
	var n int64
	for _, b := range set {
		d := imagehash.PHash64(a).Distance(imagehash.PHash64(b))
		if int(d) != bits.OnesCount64(a^b) {
			fs.add("PHash64.Distance != popcount(xor)", fmt.Sprintf("%#x %#x -> %d", a, b, d))
		}
		if d != imagehash.PHash64(b).Distance(imagehash.PHash64(a)) {
			fs.add("PHash64.Distance not symmetric", fmt.Sprintf("%#x %#x", a, b))
		}
		A := imagehash.PHash256{a, b, a ^ b, ^a}
		B := imagehash.PHash256{b, a, a, b}
		want := uint(bits.OnesCount64(a^b)*2 + bits.OnesCount64(b) + bits.OnesCount64(^a^b))
		if A.Distance(B) != want || B.Distance(A) != want {
			fs.add("PHash256.Distance != popcount(xor)", fmt.Sprintf("%v %v -> %d want %d", A, B, A.Distance(B), want))
		}
		for _, c := range set {
			n++
			dab, dbc, dac := int(d), int(imagehash.PHash64(b).Distance(imagehash.PHash64(c))), int(imagehash.PHash64(a).Distance(imagehash.PHash64(c)))
			if dac > dab+dbc {
				fs.add("triangle inequality", fmt.Sprintf("%#x %#x %#x", a, b, c))
			}
		}
	}
	// the extremes of the 256-bit distance: complements differ in all 256 bits
	for _, b := range set {
		X := imagehash.PHash256{a, b, ^a, a ^ b}
		Y := imagehash.PHash256{^a, ^b, a, ^(a ^ b)}
		if X.Distance(Y) != 256 || Y.Distance(X) != 256 {
			fs.add("PHash256.Distance of complements != 256", fmt.Sprintf("%v %v -> %d", X, Y, X.Distance(Y)))
		}
		Z := imagehash.PHash256{^a, ^b, a, ^(a ^ b) ^ 1}
		if X.Distance(Z) != 255 {
			fs.add("PHash256.Distance != popcount(xor)", fmt.Sprintf("%v %v -> %d want 255", X, Z, X.Distance(Z)))
		}
	}
	if imagehash.PHash64(a).Distance(imagehash.PHash64(^a)) != 64 {
		fs.add("PHash64.Distance of complements != 64", fmt.Sprintf("%#x", a))
	}
	if imagehash.PHash64(a).Distance(imagehash.PHash64(a)) != 0 || (imagehash.PHash256{a, a, 1, 2}).Distance(imagehash.PHash256{a, a, 1, 2}) != 0 {
		fs.add("d(a,a) != 0", fmt.Sprintf("%#x", a))
	}
	x.Bulk = n
	x.Outcome = fmt.Sprint(bits.OnesCount64(a) % 4)
	x.InputID = hashBytes([]byte{byte(ai), byte(ai >> 8), 0xD1})
	fs.flush(x, int(n))
}

func init() {
	register(&mc.Check{
		Property: "C19",
		Spaces: func(tier string) []mc.Space {
			allK := []int{kRGBA, kNRGBA, kGray, kYCbCr, kNRGBAHoles, kRGBAHoles, kYCbCr420, kGray16, kRGBA64, kPaletted, kCMYK, kNYCbCrA}
			allO := []int{0, 1, 2, 3}
			sp := []mc.Space{
				{Name: "family-64", H: c19Family(0, allK, allO), NoLevels: true, Isolate: true, SplitDepth: 1,
					Rule: "64x64 images: 12 pixel formats (RGBA, NRGBA at alpha 200, Gray, YCbCr 4:4:4 and 4:2:0, NRGBA and RGBA with fully transparent pixels, Gray16, RGBA64, Paletted, CMYK, NYCbCrA 4:2:2) x 4 rectangle placements x the content family (constants, every low-frequency cosine basis image at two amplitudes and rectified on black, two-basis sums, ramps, checkerboards, single bright/dark pixels on a grid, fixed noise); both gray conversions vs the documented luminance of the pixels (exact; 2.0 per pixel for YCbCr), both implementations vs an independent float64 DCT-II of the documented luminance, margins 1e-11*L1 / 4e-5*L1 (+ measured conversion distance); repeated and pool-poisoned calls; placement invariance"},
				{Name: "sizes-64", H: c19Sizes(0, 56, 72, 300), NoLevels: true, Isolate: true, SplitDepth: 1,
					Rule: "every (w,h) in [56,72]^2, 64x[0,300], [0,300]x64 x {Gray, RGBA, YCbCr 4:2:0} x history {pristine, after a valid hash, poisoned pools}: error and zero hash unless exactly 64x64; following valid call unchanged"},
				{Name: "nil-image", H: c19Nil, NoLevels: true, Isolate: true},
				{Name: "distance-laws", H: c19Distance, NoLevels: true, SplitDepth: 1,
					Rule: "all ordered triples of a 214-element hash set (bit walks, masks, rotations): popcount(xor), symmetry, identity, triangle inequality, for PHash64 and PHash256"},
			}
			if tier == "thorough" {
				sp[1] = mc.Space{Name: "sizes-64", H: c19Sizes(0, 0, 80, 300), NoLevels: true, Isolate: true, SplitDepth: 1,
					Rule: "every (w,h) in [0,80]^2, 64x[0,300], [0,300]x64 x 3 pixel formats x 3 histories"}
				sp = append(sp,
					mc.Space{Name: "family-256", H: c19Family(1, allK, allO), NoLevels: true, Isolate: true, SplitDepth: 1,
						Rule: "256x256 images: the same family with a 16x16 low block"},
					mc.Space{Name: "sizes-256", H: c19Sizes(1, 248, 264, 300), NoLevels: true, Isolate: true, SplitDepth: 1,
						Rule: "every (w,h) in [248,264]^2, 256x[0,300], [0,300]x256"})
			} else {
				sp = append(sp,
					mc.Space{Name: "family-256", H: c19Family(1, []int{kGray, kYCbCr, kNRGBAHoles, kRGBAHoles}, []int{0, 3}), NoLevels: true, Isolate: true, SplitDepth: 1,
						Rule: "256x256 images: Gray, YCbCr and NRGBA with transparent pixels, at the origin and as a sub-image, whole content family"},
					mc.Space{Name: "sizes-256", H: c19Sizes(1, 254, 258, 64), NoLevels: true, Isolate: true, SplitDepth: 1,
						Rule: "every (w,h) in [254,258]^2, 256x[0,64], [0,64]x256"})
			}
			pb := 2
			if tier == "thorough" {
				pb = 3
			}
			sp = append(sp, mc.Space{Name: "concurrent-hash-pairs", H: c05HarnessOf(c19HashPairs), Bound: pb, Isolate: true, SplitDepth: 1,
				Rule: fmt.Sprintf("each of the four hash functions twice at the same time on different images under the cooperative scheduler of C05 (every schedule and pool answer with <= %d deviations): each hash must equal the hash of its own image computed alone", pb)})
			if raceBin := os.Getenv("VCHECK_RACE_BIN"); raceBin != "" {
				sp = append(sp, mc.Space{Name: "concurrent-hash-pairs/race-detector", H: c05HarnessOf(c19HashPairs), Bound: pb - 1, Isolate: true, SplitDepth: 1,
					Binary: raceBin, Env: []string{"GORACE=halt_on_error=1 exitcode=66 history_size=7"},
					Rule: "the same in the -race build: work areas shared between two calls of one function show as a data race whatever the schedule"})
			}
			return sp
		},
		Assumptions: []string{
			"luminance formula re-implemented in c19.go from the documented conversion (0.299/0.587/0.114 on r/257, g/257, b/256; unclamped integer YCbCr form)",
			"margins: 1e-11*L1 for the float64 path, 4e-5*L1 for the float32 path plus the measured L1 distance of the dispatching gray conversion",
			"images outside the enumerated family are not covered; only the untyped nil image is judged",
		},
	})
}
