package main

// C08 — results do not depend on how the reader chunks its data.

import (
	"fmt"

	"verif/envio"
	"verif/gen"
	"verif/mc"
)

var c08Chunks = []int{1, 2, 3, 5, 7, 13, 64, 100, 4095, 4096, 5000, 1 << 20}

func c08Ref(e *roEntry, data []byte) roRun {
	pristine()
	return runEntry(e, envio.New(data), false)
}

func c08Compare(x *mc.Exec, e *roEntry, seedName string, data []byte, ref, got roRun, how string) {
	if got.rd.Exceeded || (got.pi != nil && got.pi.Class == "work-budget") {
		return // C02's business
	}
	refOut, gotOut := ref.outcome, got.outcome
	if ref.pi != nil {
		refOut = "PANIC " + ref.pi.Signature()
	}
	if got.pi != nil {
		gotOut = "PANIC " + got.pi.Signature()
	}
	if refOut == gotOut {
		return
	}
	// locate the first difference for the message
	i := 0
	for i < len(refOut) && i < len(gotOut) && refOut[i] == gotOut[i] {
		i++
	}
	lo := i - 60
	if lo < 0 {
		lo = 0
	}
	cut := func(s string) string {
		hi := i + 100
		if hi > len(s) {
			hi = len(s)
		}
		if lo > len(s) {
			return ""
		}
		return s[lo:hi]
	}
	x.Fail(fmt.Sprintf("chunking|%s|%s", e.name, seedKindOf(seedName)),
		fmt.Sprintf("%s on %s differs between an in-memory reader and %s: ...%s... vs ...%s...", e.name, seedName, how, cut(refOut), cut(gotOut)),
		map[string]string{"entry": e.name, "seed": seedName, "chunking": how, "in_memory": truncateStr(refOut, 3000), "chunked": truncateStr(gotOut, 3000), "input_hex": hexInput(data)})
}

func seedKindOf(name string) string {
	for _, s := range seeds() {
		if s.name == name {
			return s.kind
		}
	}
	return "?"
}

func c08Uniform(ss []seed) mc.Harness {
	pairs := seedEntryPairs(ss)
	return func(x *mc.Exec) {
		p := pairs[x.All("seed-entry", len(pairs))]
		s, e := ss[p.s], &entryPoints[p.e]
		k := c08Chunks[x.All("max-chunk", len(c08Chunks))]
		weof := x.All("data-with-eof", 2) == 1
		ref := c08Ref(e, s.doc.B)
		pristine()
		rd := envio.New(s.doc.B)
		rd.Policy = envio.Policy{MaxChunk: k, DataWithEOF: weof}
		rd.Budget = 1 << 40 // len(p) of requests says nothing about work when the reader chooses to deliver less
		got := runEntry(e, rd, false)
		c08Compare(x, e, s.name, s.doc.B, ref, got, fmt.Sprintf("a reader delivering at most %d bytes per Read (data-with-EOF=%v)", k, weof))
		x.InputID = hashBytes([]byte(fmt.Sprint(s.name, e.name, k, weof)))
		x.Outcome = fmt.Sprintf("%x", hashBytes([]byte(got.outcome))&0xffff)
		x.Note("seed", s.name)
		x.Note("entry", e.name)
		x.Note("reads", fmt.Sprint(rd.Calls))
	}
}

func c08ShortReads(ss []seed) mc.Harness {
	pairs := seedEntryPairs(ss)
	return func(x *mc.Exec) {
		p := pairs[x.All("seed-entry", len(pairs))]
		s, e := ss[p.s], &entryPoints[p.e]
		pristine()
		rd := envio.New(s.doc.B)
		rd.X = x
		rd.Mode = 2
		rd.Budget = 1 << 40
		got := runEntry(e, rd, false)
		x.Trivial = x.Cost() == 0
		if x.Cost() > 0 {
			ref := c08Ref(e, s.doc.B)
			c08Compare(x, e, s.name, s.doc.B, ref, got, "a reader with short reads "+x.DevLabels())
		}
		x.InputID = hashBytes([]byte(s.name + e.name + x.Devs().String()))
		x.Outcome = fmt.Sprintf("%x", hashBytes([]byte(got.outcome))&0xffff)
		x.Note("seed", s.name)
		x.Note("entry", e.name)
	}
}

// every length of the first read: wherever the first buffer-full ends, the result is the same
func c08FirstRead(ss []seed) mc.Harness {
	pairs := seedEntryPairs(ss)
	const chunk = 256
	return func(x *mc.Exec) {
		p := pairs[x.All("seed-entry", len(pairs))]
		s, e := ss[p.s], &entryPoints[p.e]
		max := len(s.doc.B)
		if max > 4200 {
			max = 4200
		}
		ch := x.All("length-chunk", (max+chunk-1)/chunk)
		second := []int{0, 1, 31}[x.All("second-read", 3)]
		ref := c08Ref(e, s.doc.B)
		n := 0
		for k := 1 + ch*chunk; k <= (ch+1)*chunk && k <= max; k++ {
			pristine()
			rd := envio.New(s.doc.B)
			rd.FirstChunks = []int{k, second}
			rd.Budget = 1 << 40
			got := runEntry(e, rd, false)
			n++
			c08Compare(x, e, s.name, s.doc.B, ref, got, fmt.Sprintf("a reader whose first Read delivers %d bytes and whose second delivers at most %d (0 = all)", k, second))
		}
		x.Bulk = int64(n) - 1
		x.InputID = hashBytes([]byte(fmt.Sprint(s.name, e.name, ch, second, "fr")))
		x.Outcome = e.name
	}
}

// malformed inputs under uniform chunking: error paths must agree too
func c08Malformed(ss []seed) mc.Harness {
	var withFields []seed
	for _, s := range ss {
		if len(s.doc.Fields) > 0 {
			withFields = append(withFields, s)
		}
	}
	pol := []envio.Policy{{MaxChunk: 1}, {MaxChunk: 7}, {MaxChunk: 100, DataWithEOF: true}}
	return func(x *mc.Exec) {
		s := withFields[x.All("seed", len(withFields))]
		d := &gen.Doc{B: append([]byte{}, s.doc.B...), Fields: s.doc.Fields}
		what := d.Malform(x, 1)
		pi := x.All("policy", len(pol))
		for ei := range entryPoints {
			e := &entryPoints[ei]
			if !e.accepts(s.kind) {
				continue
			}
			ref := c08Ref(e, d.B)
			pristine()
			rd := envio.New(d.B)
			rd.Policy = pol[pi]
			rd.Budget = 1 << 40
			got := runEntry(e, rd, false)
			c08Compare(x, e, s.name, d.B, ref, got, fmt.Sprintf("policy %+v on %v", pol[pi], what))
		}
		x.Trivial = len(what) == 0
		x.InputID = hashBytes(d.B) + uint64(pi)
		x.Outcome = fmt.Sprint(what)
	}
}

func init() {
	register(&mc.Check{Property: "C08", Setup: defaultLogger,
		Spaces: func(tier string) []mc.Space {
			b := 1
			ss := genSeeds()
			if tier == "thorough" {
				b = 2
				ss = seeds()
			}
			sp := []mc.Space{
				{Name: "uniform-chunking", H: c08Uniform(seeds()), NoLevels: true, Isolate: true,
					Rule: "every (seed, accepting entry) x max chunk {1,2,3,5,7,13,64,100,4095,4096,5000,unlimited} x data-with-EOF {no,yes}; compared with the in-memory run"},
				{Name: "short-reads", H: c08ShortReads(ss), Bound: b, Isolate: true,
					Rule: "every Read call index gets the deviations {1 byte, half, len-1, data-with-EOF}; up to the bound simultaneously; trivial = the undisturbed run"},
			}
			sp = append(sp, mc.Space{Name: "uniform-chunking-large-payloads", H: c08Uniform(bigSeeds()), NoLevels: true, Isolate: true,
				Rule: "the large-payload seeds (previews of 10-70 KB, also as the last box of the file; 9 KB XMP; 5 KB strings; 60 KB JPEG segments) x the same chunk sizes x data-with-EOF"})
			sp = append(sp, mc.Space{Name: "first-read-lengths", H: c08FirstRead(seeds()), NoLevels: true, Isolate: true,
				Rule: "every (seed, accepting entry) x every length 1..min(len,4200) of the first Read x second Read {unlimited, 1 byte, 31 bytes}: wherever the first buffer-full of the source ends (one byte into a header, in the middle of a marker), the result is the in-memory result"})
			if tier == "thorough" {
				sp = append(sp, mc.Space{Name: "malformed-inputs-chunked", H: c08Malformed(genSeeds()), Bound: 1, Isolate: true,
					Rule: "every single-field malformation of every generated seed under three chunking policies; error paths must agree"})
			}
			return sp
		},
		Assumptions: []string{"the comparison is between two runs of the same build on pristine state, so full value and error-string equality is demanded", "readers obey the io.Reader contract: positive counts, optional data-with-EOF on the final read"},
	})
}
