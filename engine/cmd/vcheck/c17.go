package main

// C17 — every enum / identifier value formats without panicking; documented
// values give their documented name, others the documented fallback; parse
// inverses for image types, namespaces and camera makes.
//
// The whole finite domain of every type is enumerated (exhaustive:true).

import (
	"fmt"
	"strings"

	"verif/mc"

	"github.com/evanoberholster/imagemeta/exif2/ifds"
	"github.com/evanoberholster/imagemeta/exif2/ifds/exififd"
	"github.com/evanoberholster/imagemeta/exif2/ifds/gpsifd"
	mkapple "github.com/evanoberholster/imagemeta/exif2/ifds/mknote/apple"
	mkcanon "github.com/evanoberholster/imagemeta/exif2/ifds/mknote/canon"
	mknikon "github.com/evanoberholster/imagemeta/exif2/ifds/mknote/nikon"
	mksony "github.com/evanoberholster/imagemeta/exif2/ifds/mknote/sony"
	"github.com/evanoberholster/imagemeta/exif2/tag"
	"github.com/evanoberholster/imagemeta/imagetype"
	"github.com/evanoberholster/imagemeta/isobmff"
	"github.com/evanoberholster/imagemeta/jpeg"
	"github.com/evanoberholster/imagemeta/meta"
	"github.com/evanoberholster/imagemeta/meta/canon"
	"github.com/evanoberholster/imagemeta/meta/utils"
	"github.com/evanoberholster/imagemeta/xmp/xmpns"
)

type enumCase struct {
	name     string
	domain   int                  // values 0..domain-1 (bit patterns)
	str      func(v int) string   // calls the stringer
	doc      map[int]string       // documented members (independently typed)
	fallback func(v int) string   // expected result for undocumented values; nil = any string
	extra    func(v int) []string // additional laws; returns failure kinds
	valueOf  func(v int) string   // how to print the value
}

// ---- independently typed tables (from doc comments / Exif & exiftool tag tables) ----

var docImageType = map[int]string{
	0: "application/octet-stream", 1: "image/jpeg", 2: "image/png", 3: "image/gif", 4: "image/bmp",
	5: "image/webp", 6: "image/heif", 7: "image/raw", 8: "image/tiff", 9: "image/x-adobe-dng",
	10: "image/x-nikon-nef", 11: "image/x-panasonic-raw", 12: "image/x-sony-arw", 13: "image/x-canon-crw",
	14: "image/x-gopro-gpr", 15: "image/x-canon-cr3", 16: "image/x-canon-cr2", 17: "image/vnd.adobe.photoshop",
	18: "application/rdf+xml", 19: "image/avif", 20: "image/x-portable-pixmap", 21: "image/jp2",
	22: "image/svg+xml", 23: "image/magick",
}

var docImageTypeExt = map[int]string{
	0: "", 1: "jpg", 2: "png", 3: "gif", 4: "bmp", 5: "webp", 6: "heif", 7: "RAW", 8: "TIFF", 9: "DNG", 10: "NEF",
	11: "RW2", 12: "ARW", 13: "CRW", 14: "GPR", 15: "CR3", 16: "CR2", 17: "PSD", 18: "XMP", 19: "avif", 20: "ppm",
	21: "jp2", 22: "svg", 23: "magick",
}

var docTagType = map[int]string{
	0: "Unknown", 1: "BYTE", 2: "ASCII", 3: "SHORT", 4: "LONG", 5: "RATIONAL", 6: "Unknown", 7: "UNDEFINED",
	8: "SSHORT", 9: "SLONG", 10: "SRATIONAL", 11: "FLOAT", 12: "DOUBLE", 0xf0: "_ASCII_NO_NUL", 0xf1: "IFD",
}

var docTagSize = map[int]int{1: 1, 2: 1, 3: 2, 4: 4, 5: 8, 7: 1, 8: 2, 9: 4, 10: 8, 11: 4, 12: 8, 0xf0: 1, 0xf1: 4}

var docIfdType = map[int]string{
	0: "UnknownIfd", 1: "Ifd", 2: "Ifd/SubIfd", 3: "Ifd/Exif", 4: "Ifd/GPS", 5: "Ifd/Iop", 6: "Ifd/Exif/Makernote",
	7: "Ifd/DNGAdobeData", 8: "Ifd/Exif/Makernote", 9: "Ifd/Exif/Makernote", 10: "Ifd/Exif/Makernote", 11: "Ifd/Exif/Makernote",
	12: "Ifd/SubIfd0", 13: "Ifd/SubIfd1", 14: "Ifd/SubIfd2", 15: "Ifd/SubIfd3", 16: "Ifd/SubIfd4", 17: "Ifd/SubIfd5",
	18: "Ifd/SubIfd6", 19: "Ifd/SubIfd7",
}

var docCameraMake = []string{"", "Acer", "Agfa", "Aiptek", "Apple", "Asus", "BenQ", "Canon", "Casio", "DJI", "FujiFilm", "Ge",
	"Genius", "Google", "GoPro", "Hasselblad", "HP", "Hitachi", "HTC", "Huawei", "Insta360", "Kodak", "Konica", "Kyocera",
	"Leica", "LG", "Mamyia", "Microsoft", "Minolta", "Motorola", "Nikon", "Nokia", "Olympus", "OnePlus", "Panasonic", "Pentax",
	"PhaseOne", "Polaroid", "RIM", "Ricoh", "Samsung", "Sanyo", "Sharp", "Sigma", "Sony", "SonyEricsson", "Toshiba", "Vivitar",
	"Xiamoi", "ZTE", "Hisilicon"}

var docMeteringMode = map[int]string{0: "Unknown", 1: "Average", 2: "Center-weighted average", 3: "Spot", 4: "Multi-spot",
	5: "Multi-segment", 6: "Partial", 255: "Other"}
var docExposureMode = map[int]string{0: "Auto", 1: "Manual", 2: "Auto bracket"}
var docExposureProgram = map[int]string{0: "Not Defined", 1: "Manual", 2: "Program AE", 3: "Aperture-priority AE",
	4: "Shutter speed priority AE", 5: "Creative (Slow speed)", 6: "Action (High speed)", 7: "Portrait", 8: "Landscape", 9: "Bulb"}
var docOrientation = map[int]string{0: "Unknown", 1: "Horizontal", 2: "Mirror horizontal", 3: "Rotate 180", 4: "Mirror vertical",
	5: "Mirror horizontal and rotate 270 CW", 6: "Rotate 90 CW", 7: "Mirror horizontal and rotate 90 CW", 8: "Rotate 270 CW"}

// exiftool EXIF Flash table
var docFlash = map[int]string{
	0x00: "No Flash", 0x01: "Fired", 0x05: "Fired, Return not detected", 0x07: "Fired, Return detected",
	0x08: "On, Did not fire", 0x09: "On, Fired", 0x0d: "On, Return not detected", 0x0f: "On, Return detected",
	0x10: "Off, Did not fire", 0x14: "Off, Did not fire, Return not detected", 0x18: "Auto, Did not fire",
	0x19: "Auto, Fired", 0x1d: "Auto, Fired, Return not detected", 0x1f: "Auto, Fired, Return detected",
	0x20: "No flash function", 0x30: "Off, No flash function", 0x41: "Fired, Red-eye reduction",
	0x45: "Fired, Red-eye reduction, Return not detected", 0x47: "Fired, Red-eye reduction, Return detected",
	0x49: "On, Red-eye reduction", 0x4d: "On, Red-eye reduction, Return not detected",
	0x4f: "On, Red-eye reduction, Return detected", 0x50: "Off, Red-eye reduction",
	0x58: "Auto, Did not fire, Red-eye reduction", 0x59: "Auto, Fired, Red-eye reduction",
	0x5d: "Auto, Fired, Red-eye reduction, Return not detected", 0x5f: "Auto, Fired, Red-eye reduction, Return detected",
}

var docCompression = map[int]string{1: "Uncompressed", 2: "CCITT 1D", 3: "T4/Group 3 Fax", 4: "T6/Group 4 Fax", 5: "LZW",
	6: "JPEG (old-style)", 7: "JPEG", 8: "Adobe Deflate", 9: "JBIG B&W", 10: "JBIG Color", 99: "JPEG", 262: "Kodak 262",
	32766: "Next", 32767: "Sony ARW Compressed", 32769: "Packed RAW", 32770: "Samsung SRW Compressed", 32771: "CCIRLEW",
	32772: "Samsung SRW Compressed 2", 32773: "PackBits", 32809: "Thunderscan", 32867: "Kodak KDC Compressed",
	32895: "IT8CTPAD", 32896: "IT8LW", 32897: "IT8MP", 32898: "IT8BL", 32908: "PixarFilm", 32909: "PixarLog",
	32946: "Deflate", 32947: "DCS", 33003: "Aperio JPEG 2000 YCbCr", 33005: "Aperio JPEG 2000 RGB", 34661: "JBIG",
	34676: "SGILog", 34677: "SGILog24", 34712: "JPEG 2000", 34713: "Nikon NEF Compressed", 34715: "JBIG2 TIFF FX",
	34718: "Microsoft Document Imaging (MDI) Binary Level Codec",
	34719: "Microsoft Document Imaging (MDI) Progressive Transform Codec",
	34720: "Microsoft Document Imaging (MDI) Vector", 34887: "ESRI Lerc", 34892: "Lossy JPEG", 34925: "LZMA2",
	34926: "Zstd", 34927: "WebP", 34933: "PNG", 34934: "JPEG XR", 65000: "Kodak DCR Compressed"}

// Canon maker-note enums (doc comments in meta/canon/canon.go)
var docCanonDrive = map[int]string{0: "Single", 1: "Continuous", 2: "Movie", 3: "Continuous, Speed Priority", 4: "Continuous, Low",
	5: "Continuous, High", 6: "Silent Single", 7: "Unknown", 8: "Unknown", 9: "Single, Silent", 10: "Continuous, Silent"}
var docCanonFocusMode = map[int]string{0: "One-shot AF", 1: "AI Servo AF", 2: "AI Focus AF", 3: "Manual Focus", 4: "Single",
	5: "Continuous", 6: "Manual Focus", 16: "Pan Focus", 256: "AF + MF", 512: "Movie Snap Focus", 519: "Movie Servo AF"}
var docCanonMetering = map[int]string{0: "Default", 1: "Spot", 2: "Average", 3: "Evaluative", 4: "Partial", 5: "Center-weighted average"}
var docCanonFocusRange = map[int]string{0: "Manual", 1: "Auto", 2: "Not Known", 3: "Macro", 4: "Very Close", 5: "Close",
	6: "Middle Range", 7: "Far Range", 8: "Pan Focus", 9: "Super Macro", 10: "Infinity"}
var docCanonExposureMode = map[int]string{0: "Easy", 1: "Program AE", 2: "Shutter speed priority AE", 3: "Aperture-priority AE",
	4: "Manual", 5: "Depth-of-field AE", 6: "M-Dep", 7: "Bulb", 8: "Flexible-priority AE"}
var docCanonBracket = map[int]string{0: "Off", 1: "AEB", 2: "FEB", 3: "ISO", 4: "WB"}
var docCanonAE = map[int]string{0: "Normal AE", 1: "Exposure Compensation", 2: "AE Lock", 3: "AE Lock + Exposure Compensation", 4: "No AE"}
var docCanonAFArea = map[int]string{0: "Off (Manual Focus)", 1: "AF Point Expansion (surround)", 2: "Single-point AF", 4: "Auto",
	5: "Face Detect AF", 6: "Face + Tracking", 7: "Zone AF", 8: "AF Point Expansion (4 point)", 9: "Spot AF",
	10: "AF Point Expansion (8 point)", 11: "Flexizone Multi (49 point)", 12: "Flexizone Multi (9 point)",
	13: "Flexizone Single", 14: "Large Zone AF"}

var docNamespace = []string{"Unknown", "aux", "crs", "darktable", "dc", "exif", "exifEX", "lr", "photoshop", "pmi", "rdf",
	"stDim", "stEvt", "stRef", "tiff", "x", "xap", "xapMM", "xml", "xmlns", "xmp", "xmpDM", "xmpMM"}

var docBrands = []string{"avci", "avif", "crx ", "heic", "heim", "heis", "heix", "hevc", "hevm", "hevs", "hevx", "iso8", "isom",
	"M4A ", "MA1B", "meta", "miaf", "MiAn", "MiBr", "mif1", "mif2", "MiHA", "MiHB", "MiHE", "MiPr", "mp41", "mp42", "msf1"}

var docBoxTypes = []string{"auxC", "auxl", "av01", "av1C", "avcC", "CCDT", "CCTP", "cdsc", "clap", "CMT1", "CMT2", "CMT3", "CMT4",
	"CNCV", "co64", "colr", "CRAW", "crtt", "CTBO", "CTMD", "dimg", "dinf", "dref", "etyp", "free", "ftyp", "grpl", "hdlr", "hvcC",
	"idat", "iinf", "iloc", "imir", "infe", "iovl", "ipco", "ipma", "iprp", "iref", "irot", "ispe", "lhvC", "mdat", "mdft", "mdhd",
	"mdia", "meta", "minf", "moov", "mvhd", "nmhd", "oinf", "pasp", "pitm", "pixi", "PRVW", "stbl", "stsc", "stsd", "stsz", "stts",
	"thmb", "THMB", "tkhd", "tols", "trak", "uuid", "vmhd", "Exif"}

var docMarkers = map[int]string{0xC0: "SOF0", 0xC1: "SOF1", 0xC2: "SOF2", 0xC3: "SOF3", 0xC5: "SOF5", 0xC6: "SOF6", 0xC7: "SOF7",
	0xC8: "SOF8", 0xC9: "SOF9", 0xCA: "SOF10", 0xCB: "SOF11", 0xC4: "DHT", 0xD8: "SOI", 0xD9: "EOI", 0xDB: "DQT", 0xDD: "DRI",
	0xE0: "APP0", 0xE1: "APP1", 0xE2: "APP2", 0xE3: "APP3", 0xE4: "APP4", 0xE5: "APP5", 0xE6: "APP6", 0xE7: "APP7", 0xE8: "APP8",
	0xE9: "APP9", 0xEA: "APP10", 0xEB: "APP11", 0xEC: "APP12", 0xED: "APP13", 0xEE: "APP14", 0xEF: "APP15"}

// a few tag names typed from the Exif 2.32 / TIFF 6 tag tables (spot table; the
// full id space is still enumerated for totality and fallback form).
var docRootTags = map[int]string{0x0100: "ImageWidth", 0x0101: "ImageLength", 0x010f: "Make", 0x0110: "Model", 0x0112: "Orientation",
	0x0131: "Software", 0x0132: "DateTime", 0x013b: "Artist", 0x8298: "Copyright", 0x8769: "ExifTag", 0x8825: "GPSTag", 0x014a: "SubIFDs",
	0x0111: "StripOffsets", 0x0117: "StripByteCounts", 0x0103: "Compression", 0x011a: "XResolution", 0x011b: "YResolution"}
var docExifTags = map[int]string{0x829a: "ExposureTime", 0x829d: "FNumber", 0x8822: "ExposureProgram", 0x9003: "DateTimeOriginal",
	0x9004: "DateTimeDigitized", 0x9204: "ExposureBiasValue", 0x9207: "MeteringMode", 0x9209: "Flash", 0x920a: "FocalLength",
	0x927c: "MakerNote", 0xa002: "PixelXDimension", 0xa003: "PixelYDimension", 0xa434: "LensModel"}
var docGPSTags = map[int]string{0x0001: "GPSLatitudeRef", 0x0002: "GPSLatitude", 0x0003: "GPSLongitudeRef", 0x0004: "GPSLongitude",
	0x0005: "GPSAltitudeRef", 0x0006: "GPSAltitude", 0x0007: "GPSTimeStamp", 0x001d: "GPSDateStamp"}

func constFallback(s string) func(int) string { return func(int) string { return s } }
func hexID(v int) string                      { return fmt.Sprintf("0x%04x", v) }
func listDoc(l []string, base int) map[int]string {
	m := map[int]string{}
	for i, s := range l {
		m[i+base] = s
	}
	return m
}
func s16(v int) string { return fmt.Sprintf("%d", int16(uint16(v))) }

func c17Cases() []enumCase {
	anyTagName := func(m map[int]string, f func(v int) string) enumCase {
		return enumCase{domain: 1 << 16, str: f, doc: m, fallback: nil, valueOf: hexID,
			extra: func(v int) []string {
				s := f(v)
				if s == "" {
					return []string{"empty-name"}
				}
				// undocumented ids must either be a name or the documented hex form
				if strings.HasPrefix(s, "0x") && s != hexID(v) {
					return []string{"fallback-form"}
				}
				return nil
			}}
	}
	cases := []enumCase{
		{name: "imagetype.ImageType.String", domain: 256, doc: docImageType, fallback: constFallback("application/octet-stream"),
			str: func(v int) string { return imagetype.ImageType(v).String() },
			extra: func(v int) []string {
				var out []string
				it := imagetype.ImageType(v)
				if _, ok := docImageType[v]; ok {
					if imagetype.FromString(it.String()) != it {
						out = append(out, "FromString(String)")
					}
					if v != 0 && imagetype.FromString("."+strings.ToLower(it.Extension())) != it {
						out = append(out, "FromString(ext)")
					}
					b, err := it.MarshalText()
					var it2 imagetype.ImageType
					if err != nil || it2.UnmarshalText(b) != nil || it2 != it {
						out = append(out, "text-roundtrip")
					}
				}
				if it.IsUnknown() != (v == 0) {
					out = append(out, "IsUnknown")
				}
				return out
			}},
		{name: "imagetype.ImageType.Extension", domain: 256, doc: docImageTypeExt, fallback: constFallback(""),
			str: func(v int) string { return imagetype.ImageType(v).Extension() }},
		{name: "tag.Type.String", domain: 256, doc: docTagType, fallback: constFallback("Unknown"),
			str: func(v int) string { return tag.Type(v).String() },
			extra: func(v int) []string {
				var out []string
				if int(tag.Type(v).Size()) != docTagSize[v] {
					out = append(out, "Size")
				}
				_, valid := docTagSize[v]
				if tag.Type(v).IsValid() != valid {
					out = append(out, "IsValid")
				}
				return out
			}},
		{name: "tag.ID.String", domain: 1 << 16, doc: nil, fallback: hexID, str: func(v int) string { return tag.ID(v).String() }},
		{name: "ifds.IfdType.String", domain: 256, doc: docIfdType, fallback: constFallback("UnknownIfd"),
			str: func(v int) string { return ifds.IfdType(v).String() },
			extra: func(v int) []string {
				if ifds.IfdType(v).IsValid() != (v >= 1 && v <= 19) {
					return []string{"IsValid"}
				}
				return nil
			}},
		{name: "ifds.CameraMake.String", domain: 1 << 16, doc: listDoc(docCameraMake, 0), fallback: constFallback(""),
			str: func(v int) string { return ifds.CameraMake(v).String() },
		},
		{name: "utils.ByteOrder.String", domain: 256, doc: map[int]string{0: "UnknownEndian", 1: "LittleEndian", 2: "BigEndian"},
			fallback: constFallback("UnknownEndian"), str: func(v int) string { return utils.ByteOrder(int8(uint8(v))).String() }},
		{name: "meta.MeteringMode.String", domain: 1 << 16, doc: docMeteringMode, fallback: constFallback("Unknown"),
			str: func(v int) string { return meta.MeteringMode(v).String() }},
		{name: "meta.ExposureMode.String", domain: 1 << 16, doc: docExposureMode, fallback: constFallback("Unknown"),
			str: func(v int) string { return meta.ExposureMode(v).String() }},
		{name: "meta.ExposureProgram.String", domain: 1 << 16, doc: docExposureProgram, fallback: constFallback("Not Defined"),
			str: func(v int) string { return meta.ExposureProgram(v).String() }},
		{name: "meta.Orientation.String", domain: 1 << 16, doc: docOrientation, fallback: constFallback("Unknown"),
			str: func(v int) string { return meta.Orientation(v).String() }},
		{name: "meta.Flash.String", domain: 1 << 16, doc: docFlash, fallback: constFallback("No Flash"),
			str: func(v int) string { return meta.Flash(v).String() },
			extra: func(v int) []string {
				f := meta.Flash(v)
				var out []string
				if f.Fired() != (v&1 == 1) || int(f.ReturnStatus()) != v&6 || int(f.Mode()) != v&24 || f.FlashFunction() != (v&32 != 0) || f.Redeye() != (v&64 != 0) {
					out = append(out, "bit-accessors")
				}
				return out
			}},
		{name: "meta.Compression.String", domain: 1 << 16, doc: docCompression, fallback: nil,
			str: func(v int) string { return meta.Compression(v).String() }},
		{name: "canon.ContinuousDrive.String", domain: 1 << 16, doc: docCanonDrive, fallback: constFallback("Unknown"), valueOf: s16,
			str: func(v int) string { return canon.ContinuousDrive(int16(uint16(v))).String() }},
		{name: "canon.FocusMode.String", domain: 1 << 16, doc: docCanonFocusMode, fallback: constFallback("Unknown"), valueOf: s16,
			str: func(v int) string { return canon.FocusMode(int16(uint16(v))).String() }},
		{name: "canon.MeteringMode.String", domain: 1 << 16, doc: docCanonMetering, fallback: nil, valueOf: s16,
			str: func(v int) string { return canon.MeteringMode(int16(uint16(v))).String() }},
		{name: "canon.FocusRange.String", domain: 1 << 16, doc: docCanonFocusRange, fallback: nil, valueOf: s16,
			str: func(v int) string { return canon.FocusRange(int16(uint16(v))).String() }},
		{name: "canon.ExposureMode.String", domain: 1 << 16, doc: docCanonExposureMode, fallback: nil, valueOf: s16,
			str: func(v int) string { return canon.ExposureMode(int16(uint16(v))).String() }},
		{name: "canon.BracketMode.String", domain: 1 << 16, doc: docCanonBracket, fallback: nil, valueOf: s16,
			str: func(v int) string { return canon.BracketMode(int16(uint16(v))).String() },
			extra: func(v int) []string {
				if canon.BracketMode(int16(uint16(v))).Active() != (v != 0) {
					return []string{"Active"}
				}
				return nil
			}},
		{name: "canon.AESetting.String", domain: 1 << 16, doc: docCanonAE, fallback: nil, valueOf: s16,
			str: func(v int) string { return canon.AESetting(int16(uint16(v))).String() }},
		{name: "canon.AFAreaMode.String", domain: 1 << 16, doc: docCanonAFArea, fallback: nil, valueOf: s16,
			str: func(v int) string { return canon.AFAreaMode(int16(uint16(v))).String() }},
		{name: "xmpns.Namespace.String", domain: 256, doc: listDoc(docNamespace, 0), fallback: constFallback(""),
			str: func(v int) string { return xmpns.Namespace(v).String() },
			extra: func(v int) []string {
				if v < len(docNamespace) {
					if int(xmpns.IdentifyNamespace([]byte(xmpns.Namespace(v).String()))) != v {
						return []string{"IdentifyNamespace(String)"}
					}
				}
				return nil
			}},
		{name: "xmpns.Name.String", domain: 256, doc: nil, fallback: nil,
			str: func(v int) string { return xmpns.Name(v).String() },
			extra: func(v int) []string {
				s := xmpns.Name(v).String()
				if s != "" && int(xmpns.IdentifyName([]byte(s))) != v {
					return []string{"IdentifyName(String)"}
				}
				return nil
			}},
		{name: "xmpns.Property.String", domain: 1 << 16, doc: nil,
			fallback: func(v int) string {
				return xmpns.Namespace(v>>8).String() + ":" + xmpns.Name(v&255).String()
			},
			str: func(v int) string { return xmpns.Property{uint8(v >> 8), uint8(v)}.String() },
			extra: func(v int) []string {
				p := xmpns.NewProperty(xmpns.Namespace(v>>8), xmpns.Name(v&255))
				if int(p.Namespace()) != v>>8 || int(p.Name()) != v&255 || !p.Equals(p) {
					return []string{"accessors"}
				}
				return nil
			}},
		{name: "isobmff.Brand.String", domain: 256, doc: listDoc(docBrands, 1), fallback: constFallback("nnnn"),
			str: func(v int) string { return isobmff.Brand(v).String() }},
		{name: "isobmff.boxType.String", domain: 256, doc: listDoc(docBoxTypes, 1), fallback: constFallback("nnnn"),
			str: func(v int) string { return isobmff.VerifBoxTypeString(uint8(v)) },
			extra: func(v int) []string {
				if v >= 1 && v <= len(docBoxTypes) {
					if int(isobmff.VerifBoxTypeFromBuf([]byte(docBoxTypes[v-1]))) != v {
						return []string{"boxTypeFromBuf(String)"}
					}
				}
				return nil
			}},
		{name: "jpeg.markerType.String", domain: 256, doc: docMarkers,
			fallback: func(v int) string { return fmt.Sprintf("Unknown marker %x", v) },
			str:      func(v int) string { return jpeg.VerifMarkerString(uint8(v)) }},
	}
	// camera model families: ifds.CameraModel dispatches on v/0x10000
	for fam := 0; fam <= 5; fam++ {
		fam := fam
		cases = append(cases, enumCase{name: fmt.Sprintf("ifds.CameraModel.String[family %d]", fam), domain: 1 << 16, fallback: nil,
			valueOf: func(v int) string { return fmt.Sprintf("0x%x", fam<<16|v) },
			str:     func(v int) string { return ifds.CameraModel(uint32(fam<<16 | v)).String() },
			extra: func(v int) []string {
				full := uint32(fam<<16 | v)
				s := ifds.CameraModel(full).String()
				var want string
				switch fam {
				case 1:
					want = mkcanon.CameraModel(full).String()
				case 2:
					want = mkapple.CameraModel(full).String()
				case 3:
					want = mknikon.CameraModel(full).String()
				case 4:
					want = mksony.CameraModel(full).String()
				}
				if s != want {
					return []string{"family-dispatch"}
				}
				if v == 0 && s != ifds.CameraModelUnknown.String() {
					// 0x10000, 0x20000, ...: the "unknown model of this make" constants have no name of their own
					return []string{"unknown-model-constant-formats-with-a-name"}
				}
				return nil
			}})
	}
	// tag names per directory type: all 2^16 ids for each of the 256 IfdType values is
	// 16.7 M calls; the distinct code paths are the 12 named directory kinds below.
	tn := func(it ifds.IfdType, m map[int]string) enumCase {
		c := anyTagName(m, func(v int) string { return it.TagName(tag.ID(v)) })
		c.name = fmt.Sprintf("ifds.IfdType(%d).TagName", it)
		return c
	}
	cases = append(cases,
		tn(ifds.NullIFD, nil), tn(ifds.IFD0, docRootTags), tn(ifds.SubIFD, docRootTags), tn(ifds.ExifIFD, docExifTags),
		tn(ifds.GPSIFD, docGPSTags), tn(ifds.IopIFD, nil), tn(ifds.MknoteIFD, nil), tn(ifds.MkNoteCanonIFD, nil),
		tn(ifds.MkNoteNikonIFD, nil), tn(ifds.MkNoteAppleIFD, nil), tn(ifds.MkNoteSonyIFD, nil),
		tn(ifds.SubIfd0, map[int]string{0x0111: "PreviewImageStart", 0x0117: "PreviewImageLength"}),
		tn(ifds.SubIfd2, map[int]string{0x0111: "JpgFromRawStart", 0x0117: "JpgFromRawLength"}),
		tn(ifds.SubIfd7, nil), tn(ifds.IfdType(200), nil))
	{
		c := anyTagName(docExifTags, func(v int) string { return exififd.TagString(tag.ID(v)) })
		c.name = "exififd.TagString"
		cases = append(cases, c)
		c = anyTagName(docGPSTags, func(v int) string { return gpsifd.TagString(tag.ID(v)) })
		c.name = "gpsifd.TagString"
		cases = append(cases, c)
	}
	return cases
}

func init() {
	cases := c17Cases()
	h := func(x *mc.Exec) {
		normalise()
		ci := x.All("type", len(cases))
		c := cases[ci]
		x.Note("type", c.name)
		x.Note("domain", fmt.Sprint(c.domain))
		x.Bulk = int64(c.domain) - 1
		type agg struct {
			first string
			n     int
			got   string
		}
		fails := map[string]*agg{}
		add := func(kind string, v int, got string) {
			a := fails[kind]
			if a == nil {
				a = &agg{}
				fails[kind] = a
				if c.valueOf != nil {
					a.first = c.valueOf(v)
				} else {
					a.first = fmt.Sprint(v)
				}
				a.got = got
			}
			a.n++
		}
		distinct := map[string]struct{}{}
		for v := 0; v < c.domain; v++ {
			var s string
			pi := mc.Guard(func() { s = c.str(v) })
			if pi != nil {
				add("panic:"+pi.Class, v, pi.Value)
				continue
			}
			if len(distinct) < 1000 {
				distinct[s] = struct{}{}
			}
			if want, ok := c.doc[v]; ok {
				if s != want {
					add("documented-name", v, fmt.Sprintf("got %q want %q", s, want))
				}
			} else if c.fallback != nil {
				if want := c.fallback(v); s != want {
					add("fallback", v, fmt.Sprintf("got %q want %q", s, want))
				}
			}
			if c.extra != nil {
				var kinds []string
				pi := mc.Guard(func() { kinds = c.extra(v) })
				if pi != nil {
					add("panic-in-law:"+pi.Class, v, pi.Value)
				}
				for _, k := range kinds {
					add(k, v, "")
				}
			}
		}
		x.Outcome = fmt.Sprintf("%s:%d distinct strings", c.name, len(distinct))
		for kind, a := range fails {
			x.Fail("mismatch|"+c.name+"|"+kind, fmt.Sprintf("%s: %s fails for %d of %d values; first failing value %s %s", c.name, kind, a.n, c.domain, a.first, a.got),
				map[string]string{"type": c.name, "first_value": a.first, "observed": a.got, "failing_values": fmt.Sprint(a.n)})
		}
	}
	register(&mc.Check{
		Property: "C17",
		Spaces: func(tier string) []mc.Space {
			return []mc.Space{{Name: "enum-domains", H: h, Bound: 0, NoLevels: true,
				Rule: "one execution per (type, method); inside it every value of the type's 2^8/2^16 domain is evaluated (counted in evaluations); non-trivial = every execution (each is a different type)"}}
		},
		Assumptions: []string{
			"documented names are the independently typed tables in c17.go (doc comments, Exif 2.32 / exiftool tag tables)",
			"types whose documentation defines no fallback for undocumented values (map-based Canon enums, Compression, tag names) are checked for totality and documented members only",
			"unexported isobmff.boxType and jpeg.markerType are reached through the verif-tagged export files",
		},
	})
}
