package main

// C13 — XMP properties are extracted exactly, in attribute or element form alike.

import (
	"bytes"
	"encoding/hex"
	"encoding/xml"
	"fmt"
	"io"
	"strconv"
	"strings"
	"time"

	"verif/gen"
	"verif/mc"
	"verif/obs"

	"github.com/evanoberholster/imagemeta/xmp"
)

func xmpExpectValue(s *gen.XPropSpec, v string) string {
	switch s.Kind {
	case gen.XString:
		return strconv.Quote(v)
	case gen.XInt:
		if strings.HasPrefix(v, "-") {
			n, _ := strconv.ParseInt(v, 10, 64)
			return strconv.FormatInt(n, 10)
		}
		n, _ := strconv.ParseUint(v, 10, 64)
		return strconv.FormatUint(n, 10)
	case gen.XRational:
		a, b, _ := strings.Cut(v, "/")
		n, _ := strconv.ParseUint(a, 10, 32)
		d, _ := strconv.ParseUint(b, 10, 32)
		return obs.F32(float32(n) / float32(d))
	case gen.XBias:
		a, b, _ := strings.Cut(v, "/")
		n, _ := strconv.ParseInt(strings.TrimPrefix(a, "+"), 10, 32)
		d, _ := strconv.ParseInt(b, 10, 32)
		return strconv.Itoa(int(int16(n*256 + d)))
	case gen.XDate:
		for _, l := range []string{"2006-01-02T15:04:05Z07:00", "2006-01-02T15:04:05.999999999", "2006-01-02T15:04:05"} {
			if t, err := time.Parse(l, v); err == nil {
				return obs.FmtTime(t)
			}
		}
		return "unparseable date " + v
	case gen.XUUID:
		if i := strings.LastIndexByte(v, ':'); i >= 0 {
			v = v[i+1:]
		}
		b, err := hex.DecodeString(strings.ReplaceAll(v, "-", ""))
		if err != nil || len(b) != 16 {
			return "bad uuid " + v
		}
		return hex.EncodeToString(b)
	case gen.XFloat:
		f, _ := strconv.ParseFloat(v, 64)
		if s.Bits == 32 {
			return obs.F32(float32(f))
		}
		return obs.F64(f)
	case gen.XFormat:
		for k, n := range docImageType {
			if n == v {
				return strconv.Itoa(k)
			}
		}
	}
	return "?"
}

func xmpExpect(rec *gen.XRec) obs.Obs {
	o := obs.Flatten(xmp.XMP{})
	for _, p := range rec.Props {
		o[p.Spec.Field] = xmpExpectValue(p.Spec, p.Value)
	}
	for _, a := range rec.Arrays {
		if len(a.Items) == 0 {
			continue
		}
		if a.Spec.Field == "Exif.ISOSpeedRatings" {
			o[a.Spec.Field] = a.Items[len(a.Items)-1]
			continue
		}
		o[a.Spec.Field] = fmt.Sprintf("%q", a.Items)
	}
	return o
}

var xmpIgnore = map[string]bool{"DC.TitleLang": true} // language tags of dc:title: an extra the statement does not define

// xmlReadBack cross-checks the serialiser with encoding/xml.
func xmlReadBack(packet []byte, rec *gen.XRec) error {
	i := bytes.Index(packet, []byte("<x:xmpmeta"))
	if i < 0 {
		return fmt.Errorf("no root")
	}
	dec := xml.NewDecoder(bytes.NewReader(packet[i:]))
	dec.Strict = false
	got := map[string][]string{}
	var stack []string
	var text strings.Builder
	for {
		tok, err := dec.Token()
		if err == io.EOF {
			break
		}
		if err != nil {
			return fmt.Errorf("encoding/xml: %v", err)
		}
		switch t := tok.(type) {
		case xml.StartElement:
			name := t.Name.Space + "|" + t.Name.Local
			if t.Name.Local == "Description" {
				for _, a := range t.Attr {
					if a.Name.Space == "xmlns" || a.Name.Local == "about" || a.Name.Local == "xmlns" {
						continue
					}
					k := a.Name.Space + "|" + a.Name.Local
					got[k] = append(got[k], a.Value)
				}
			}
			stack = append(stack, name)
			text.Reset()
		case xml.CharData:
			text.Write(t)
		case xml.EndElement:
			if len(stack) >= 1 {
				name := stack[len(stack)-1]
				stack = stack[:len(stack)-1]
				if t.Name.Local == "li" && len(stack) >= 2 {
					owner := stack[len(stack)-2]
					got[owner] = append(got[owner], text.String())
				} else if len(stack) >= 1 && strings.HasSuffix(stack[len(stack)-1], "|Description") && !strings.Contains(text.String(), "\x00") {
					if s := strings.TrimSpace(text.String()); s != "" || true {
						if _, isArr := got[name]; !isArr {
							got[name+"#elem"] = append(got[name+"#elem"], text.String())
						}
					}
				}
			}
			text.Reset()
		}
	}
	uri := func(ns string) string {
		m := map[string]string{"tiff": "http://ns.adobe.com/tiff/1.0/", "exif": "http://ns.adobe.com/exif/1.0/", "aux": "http://ns.adobe.com/exif/1.0/aux/",
			"xmp": "http://ns.adobe.com/xap/1.0/", "xmpMM": "http://ns.adobe.com/xap/1.0/mm/", "crs": "http://ns.adobe.com/camera-raw-settings/1.0/", "dc": "http://purl.org/dc/elements/1.1/"}
		return m[ns]
	}
	for _, p := range rec.Props {
		k := uri(p.Spec.NS) + "|" + p.Spec.Name
		vals := append(got[k], got[k+"#elem"]...)
		found := false
		for _, v := range vals {
			if v == p.Value {
				found = true
			}
		}
		if !found {
			return fmt.Errorf("property %s:%s=%q not found by encoding/xml (got %q)", p.Spec.NS, p.Spec.Name, p.Value, vals)
		}
	}
	for _, a := range rec.Arrays {
		k := uri(a.Spec.NS) + "|" + a.Spec.Name
		if fmt.Sprint(got[k]) != fmt.Sprint(a.Items) && len(a.Items) > 0 {
			return fmt.Errorf("array %s:%s: encoding/xml sees %q want %q", a.Spec.NS, a.Spec.Name, got[k], a.Items)
		}
	}
	return nil
}

type xmpResult struct {
	X     xmp.XMP
	Err   error
	Panic *mc.PanicInfo
}

func runXmp(packet []byte) (r xmpResult) {
	r.Panic = mc.Guard(func() { r.X, r.Err = xmp.ParseXmp(bytes.NewReader(packet)) })
	return
}

func xmpOK(err error) bool { return err == nil || err == io.EOF }

func c13Forms(x *mc.Exec) {
	rec := gen.ChooseXRec(x)
	st := gen.ChooseXStyle(x, len(rec.Props))
	packet := rec.Serialize(st)
	if err := xmlReadBack(packet, rec); err != nil {
		panic(mc.HarnessError{Msg: "xmpgen self-validation: " + err.Error() + "\n" + string(packet)})
	}
	x.InputID = hashBytes(packet)
	x.Note("bytes", fmt.Sprint(len(packet)))
	r := runXmp(packet)
	if r.Panic != nil {
		failPanic(x, r.Panic, "xmp.ParseXmp", packet, map[string]string{"packet": truncateStr(string(packet), 3000)})
		return
	}
	got := obs.Flatten(r.X)
	want := xmpExpect(rec)
	diff := obs.Diff(got, want, xmpIgnore)
	if !xmpOK(r.Err) {
		diff = append(diff, "error")
	}
	if len(diff) > 0 {
		failMismatch(x, "xmp.ParseXmp", got, want, diff, packet, map[string]string{"error": fmt.Sprint(r.Err), "packet": truncateStr(string(packet), 3000), "record": rec.Describe()})
	}
	x.Outcome = fmt.Sprintf("%x", hashBytes([]byte(got.String()))&0xfffff)
	// attribute form == element form for the same record (second serialisation, all-elements)
	st2 := st
	st2.Quote ^= 0x100
	p2 := rec.Serialize(st2)
	r2 := runXmp(p2)
	if r2.Panic != nil {
		failPanic(x, r2.Panic, "xmp.ParseXmp", p2, nil)
		return
	}
	got2 := obs.Flatten(r2.X)
	d2 := obs.Diff(got, got2, xmpIgnore)
	if xmpOK(r.Err) != xmpOK(r2.Err) {
		d2 = append(d2, "error")
	}
	if len(d2) > 0 {
		failMismatch(x, "xmp.ParseXmp attr-form vs element-form", got, got2, d2, packet, map[string]string{"packet_elements": truncateStr(string(p2), 3000)})
	}
}

// look-ahead grid: one string property of length L after P bytes of padding, followed by a second property
func c13Grid(maxL int, pads []int) mc.Harness {
	const chunks = 16
	return func(x *mc.Exec) {
		form := x.All("form", 2)
		shape := x.All("value-shape", 3) // letters; blanks then one letter; one letter then blanks
		pi := x.All("padding", len(pads))
		ch := x.All("length-chunk", chunks)
		P := pads[pi]
		lo, hi := 1+maxL*ch/chunks, maxL*(ch+1)/chunks
		fs := newFailSet(fmt.Sprintf("xmp.lookahead(form=%d,%s)", form, []string{"letters", "leading-blanks", "trailing-blanks"}[shape]))
		n := 0
		for L := lo; L <= hi; L++ {
			n++
			val := make([]byte, L)
			for i := range val {
				val[i] = byte('a' + (i*7+L)%26)
				if (shape == 1 && i < L-1) || (shape == 2 && i > 0) {
					val[i] = ' '
				}
			}
			var sb strings.Builder
			sb.WriteString("<x:xmpmeta xmlns:x=\"adobe:ns:meta/\"><rdf:RDF xmlns:rdf=\"http://www.w3.org/1999/02/22-rdf-syntax-ns#\">")
			pad := strings.Repeat(" ", P)
			if form == 0 {
				sb.WriteString("<rdf:Description rdf:about=\"\" xmlns:aux=\"http://ns.adobe.com/exif/1.0/aux/\" xmlns:tiff=\"http://ns.adobe.com/tiff/1.0/\"" + pad + " aux:Lens=\"" + string(val) + "\" tiff:Model=\"after\"/>")
			} else {
				sb.WriteString("<rdf:Description rdf:about=\"\" xmlns:aux=\"http://ns.adobe.com/exif/1.0/aux/\" xmlns:tiff=\"http://ns.adobe.com/tiff/1.0/\">" + pad + "<aux:Lens>" + string(val) + "</aux:Lens><tiff:Model>after</tiff:Model></rdf:Description>")
			}
			sb.WriteString("</rdf:RDF></x:xmpmeta>")
			packet := []byte(sb.String())
			r := runXmp(packet)
			if r.Panic != nil {
				fs.add(r.Panic.Signature(), fmt.Sprintf("L=%d P=%d: %s", L, P, r.Panic.Value))
				continue
			}
			okRes := r.X.Aux.Lens == string(val) && r.X.Tiff.Model == "after" && xmpOK(r.Err)
			if okRes {
				continue
			}
			if L > 1024 && !xmpOK(r.Err) && (r.X.Aux.Lens == "" || r.X.Aux.Lens == string(val)) {
				continue // beyond the statement's 1..1024-byte value range: an error is acceptable, a wrong value never
			}
			kind := "value-lost-or-wrong"
			switch {
			case r.X.Aux.Lens != "" && r.X.Aux.Lens != string(val):
				kind = "wrong-or-truncated-value"
			case r.X.Aux.Lens == string(val) && r.X.Tiff.Model != "after":
				kind = "following-property-lost"
			case !xmpOK(r.Err):
				kind = "error-within-window"
			}
			fs.add(kind, fmt.Sprintf("L=%d P=%d err=%v got Lens len %d Model %q", L, P, r.Err, len(r.X.Aux.Lens), r.X.Tiff.Model))
		}
		x.Bulk = int64(n) - 1
		x.InputID = uint64(form)<<32 | uint64(shape)<<40 | uint64(pi)<<16 | uint64(ch) + 1
		x.Outcome = fmt.Sprint(len(fs.order))
		fs.flush(x, n)
	}
}

func init() {
	register(&mc.Check{
		Property: "C13",
		Spaces: func(tier string) []mc.Space {
			b := 1
			pads := []int{0, 127, 128, 129, 255, 256, 511, 512, 513}
			if tier == "thorough" {
				b = 3
				pads = nil
				for p := 0; p <= 600; p += 7 {
					pads = append(pads, p)
				}
				pads = append(pads, 127, 128, 129, 255, 256, 257, 511, 512, 513)
			}
			return []mc.Space{
				{Name: "forms-and-order", H: c13Forms, Bound: b,
					Rule: "record of 38 simple and 6 array properties; deviations: another value from the property's menu, element form, absence, array size, quote, attribute/element white space, leading junk, unknown properties, second rdf:Description, xap prefixes, neighbour swap, all-elements; each record also re-serialised in the opposite form and both results compared"},
				{Name: "lookahead-grid", H: c13Grid(1600, pads), NoLevels: true,
					Rule: "one string property of every length 1..1600 (letters; blanks ending in one letter; one letter followed by blanks) after P bytes of padding (P menu), attribute and element form, followed by a second property; beyond the 1538-byte window an error is accepted, a wrong value never"},
			}
		},
		Assumptions: []string{
			"generator cross-checked on every execution with encoding/xml",
			"value domains avoid XML entities/CDATA (not in the statement); GPS values are decimal text; integer values avoid the all-ones maximum the parsers reserve",
			"DC.TitleLang (language tags) is not compared",
			"success = nil or io.EOF (the reader reports the trailing xpacket instruction as EOF)",
		},
	})
}
