package main

// C15 — logging is neutral: any level and writer give the same results and no
// panic; the default configuration writes nothing to fds 1 and 2.
//
// Configurations (8 levels x 3 writers + the pristine default) x inputs (every
// seed, every single-field malformation, every cut at a structural boundary,
// byte substitutions of the XMP and small seeds) x every accepting entry point.
// The comparison is between two runs of the same code, so full string equality
// of value and error is demanded.

import (
	"errors"
	"fmt"
	"io"
	"os"
	"sort"
	"syscall"

	"verif/envio"
	"verif/gen"
	"verif/mc"

	"github.com/evanoberholster/imagemeta"
	"github.com/evanoberholster/imagemeta/exif2"
	"github.com/evanoberholster/imagemeta/isobmff"
	"github.com/evanoberholster/imagemeta/jpeg"
	"github.com/rs/zerolog"
)

// the loggers as the packages initialise them: the default configuration
var c15Default = struct{ exif2, jpeg, isobmff zerolog.Logger }{exif2.Logger, jpeg.Logger, isobmff.Logger}

type failingWriter struct{}

func (failingWriter) Write(p []byte) (int, error) { return 0, errors.New("verif: log writer fails") }

type shortWriter struct{}

func (shortWriter) Write(p []byte) (int, error) { return len(p) / 2, nil }

var c15Levels = []zerolog.Level{zerolog.TraceLevel, zerolog.DebugLevel, zerolog.InfoLevel, zerolog.WarnLevel, zerolog.ErrorLevel, zerolog.FatalLevel, zerolog.PanicLevel, zerolog.Disabled}
var c15LevelName = []string{"trace", "debug", "info", "warn", "error", "fatal", "panic", "disabled"}
var c15WriterName = []string{"discarding", "failing", "short-writing"}

const c15Configs = 24 // index 0..23 = level*3+writer; -1 = default

func c15SetConfig(c int) string {
	if c < 0 {
		exif2.Logger, jpeg.Logger, isobmff.Logger = c15Default.exif2, c15Default.jpeg, c15Default.isobmff
		return "default"
	}
	var w io.Writer
	switch c % 3 {
	case 0:
		w = io.Discard
	case 1:
		w = failingWriter{}
	case 2:
		w = shortWriter{}
	}
	imagemeta.SetLogger(w, c15Levels[c/3])
	return c15LevelName[c/3] + "/" + c15WriterName[c%3]
}

// ---- capture of file descriptors 1 and 2 ----

var capFile *os.File

func capInit() {
	if capFile != nil {
		return
	}
	f, err := os.CreateTemp("", "vcheck-c15-fd-")
	if err != nil {
		panic(mc.HarnessError{Msg: "c15: temp file: " + err.Error()})
	}
	os.Remove(f.Name())
	capFile = f
}

// captureFDs runs f with fds 1 and 2 pointing at a scratch file and returns
// what was written to them.
func captureFDs(f func()) []byte {
	capInit()
	capFile.Truncate(0)
	capFile.Seek(0, 0)
	s1, e1 := syscall.Dup(1)
	s2, e2 := syscall.Dup(2)
	if e1 != nil || e2 != nil {
		panic(mc.HarnessError{Msg: "c15: dup failed"})
	}
	syscall.Dup2(int(capFile.Fd()), 1)
	syscall.Dup2(int(capFile.Fd()), 2)
	func() {
		defer func() {
			syscall.Dup2(s1, 1)
			syscall.Dup2(s2, 2)
			syscall.Close(s1)
			syscall.Close(s2)
		}()
		f()
	}()
	st, err := capFile.Stat()
	if err != nil || st.Size() == 0 {
		return nil
	}
	n := st.Size()
	if n > 300 {
		n = 300
	}
	b := make([]byte, n)
	capFile.ReadAt(b, 0)
	return b
}

// c15Judge runs entry e on data under the default configuration (with fd
// capture) and under every other configuration, and compares.
func c15Judge(x *mc.Exec, sigs map[string]bool, e *roEntry, data []byte, what string, configs []int) int {
	fail := func(kind, msg string) {
		if sigs[kind] {
			return
		}
		sigs[kind] = true
		x.Fail(kind, fmt.Sprintf("%s on %s: %s", e.name, what, msg), map[string]string{"entry": e.name, "case": what, "input_hex": hexInput(data)})
	}
	pristine()
	c15SetConfig(-1)
	var base roRun
	out := captureFDs(func() { base = runEntry(e, envio.New(data), false) })
	if len(out) > 0 {
		fail("stdout|"+e.name, fmt.Sprintf("with the default logger configuration the call wrote to fd 1/2: %q", out))
	}
	baseStr := base.outcome
	if base.pi != nil {
		baseStr = "PANIC " + base.pi.Signature()
	}
	n := 1
	for _, c := range configs {
		pristine()
		name := c15SetConfig(c)
		var res roRun
		captureFDs(func() { res = runEntry(e, envio.New(data), false) }) // zerolog reports writer failures on stderr: captured and ignored
		n++
		if res.pi != nil && base.pi == nil {
			fail("panic-at-level|"+res.pi.Func+"|"+res.pi.Class, fmt.Sprintf("panics with the logger at %s (%s) but not with the default configuration", name, res.pi.Value))
			continue
		}
		got := res.outcome
		if res.pi != nil {
			got = "PANIC " + res.pi.Signature()
		}
		if got != baseStr {
			fail("result-depends-on-logger|"+e.name, fmt.Sprintf("logger at %s: %s ; default configuration: %s", name, truncStr(got, 400), truncStr(baseStr, 400)))
		}
	}
	c15SetConfig(-1)
	return n
}

func truncStr(s string, n int) string {
	if len(s) > n {
		return s[:n] + "..."
	}
	return s
}

func c15AllConfigs() []int {
	out := make([]int, c15Configs)
	for i := range out {
		out[i] = i
	}
	return out
}

// level sweep with the discarding writer plus the two odd writers at trace level
func c15FewConfigs() []int { return []int{0, 1, 2, 3, 6, 9, 12, 21} }

func c15Seeds(ss []seed, configs []int) mc.Harness {
	pairs := seedEntryPairs(ss)
	return func(x *mc.Exec) {
		p := pairs[x.All("seed-entry", len(pairs))]
		s, e := ss[p.s], &entryPoints[p.e]
		sigs := map[string]bool{}
		n := c15Judge(x, sigs, e, s.doc.B, "seed "+s.name, configs)
		x.Bulk = int64(n) - 1
		x.InputID = hashBytes([]byte(s.name + e.name))
		x.Outcome = e.name
		x.Note("seed", s.name)
	}
}

func c15Malformations(ss []seed, bound int, configs []int) mc.Harness {
	var withFields []seed
	for _, s := range ss {
		if len(s.doc.Fields) > 0 {
			withFields = append(withFields, s)
		}
	}
	return func(x *mc.Exec) {
		s := withFields[x.All("seed", len(withFields))]
		d := &gen.Doc{B: append([]byte{}, s.doc.B...), Fields: s.doc.Fields}
		what := d.Malform(x, bound)
		sigs := map[string]bool{}
		n := 0
		for ei := range entryPoints {
			e := &entryPoints[ei]
			if !e.accepts(s.kind) && ei != 0 {
				continue
			}
			n += c15Judge(x, sigs, e, d.B, fmt.Sprintf("seed %s with %v", s.name, what), configs)
		}
		x.Bulk = int64(n) - 1
		x.InputID = hashBytes(d.B)
		x.Outcome = fmt.Sprint(len(sigs))
		x.Trivial = len(what) == 0
		x.Note("seed", s.name)
		x.Note("malformation", fmt.Sprint(what))
	}
}

// cut points: both ends of every structural field, +-1, and every 64th byte
func c15Cuts(s seed) []int {
	set := map[int]bool{0: true, len(s.doc.B): true}
	for _, f := range s.doc.Fields {
		for _, k := range []int{f.Off - 1, f.Off, f.Off + 1, f.Off + f.Size, f.Off + f.Size + 1} {
			if k >= 0 && k <= len(s.doc.B) {
				set[k] = true
			}
		}
	}
	for k := 0; k < len(s.doc.B); k += 64 {
		set[k] = true
	}
	out := make([]int, 0, len(set))
	for k := range set {
		out = append(out, k)
	}
	sort.Ints(out)
	return out
}

func c15Truncations(ss []seed, configs []int) mc.Harness {
	pairs := seedEntryPairs(ss)
	return func(x *mc.Exec) {
		p := pairs[x.All("seed-entry", len(pairs))]
		s, e := ss[p.s], &entryPoints[p.e]
		cuts := c15Cuts(s)
		const per = 16
		ch := x.All("cut-chunk", (len(cuts)+per-1)/per)
		sigs := map[string]bool{}
		n := 0
		for i := ch * per; i < (ch+1)*per && i < len(cuts); i++ {
			n += c15Judge(x, sigs, e, s.doc.B[:cuts[i]], fmt.Sprintf("seed %s cut at %d of %d", s.name, cuts[i], len(s.doc.B)), configs)
		}
		x.Bulk = int64(n) - 1
		x.InputID = hashBytes([]byte(fmt.Sprint(s.name, e.name, ch)))
		x.Outcome = e.name
	}
}

func c15ByteSubst(ss []seed, stride int, configs []int) mc.Harness {
	pairs := seedEntryPairs(ss)
	const chunk = 32
	return func(x *mc.Exec) {
		p := pairs[x.All("seed-entry", len(pairs))]
		s, e := ss[p.s], &entryPoints[p.e]
		nch := (len(s.doc.B) + chunk - 1) / chunk
		ch := x.All("position-chunk", nch)
		b := append([]byte{}, s.doc.B...)
		sigs := map[string]bool{}
		n := 0
		for pos := ch * chunk; pos < (ch+1)*chunk && pos < len(b); pos++ {
			old := b[pos]
			for v := (pos * 7) % stride; v < 256; v += stride {
				if byte(v) == old {
					continue
				}
				b[pos] = byte(v)
				n += c15Judge(x, sigs, e, b, fmt.Sprintf("seed %s with byte %d set to %#02x", s.name, pos, v), configs)
			}
			b[pos] = old
		}
		x.Bulk = int64(n) - 1
		x.InputID = hashBytes([]byte(fmt.Sprint(s.name, e.name, ch, "s")))
		x.Outcome = e.name
	}
}

// c15Trees: the CR3 tree generator of C11 (well-formed trees with unusual but honest shapes:
// degenerate children, many ftyp brands, unknown boxes, 64-bit sizes, payload size menus).
func c15Trees(configs []int) mc.Harness {
	var cr3 []int
	for ei := range entryPoints {
		if entryPoints[ei].accepts("cr3") || ei == 0 {
			cr3 = append(cr3, ei)
		}
	}
	return func(x *mc.Exec) {
		t, what := c11Build(x, false)
		sigs := map[string]bool{}
		n := 0
		for _, ei := range cr3 {
			n += c15Judge(x, sigs, &entryPoints[ei], t.doc.B, "CR3 tree with deviations "+x.DevLabels()+" "+what, configs)
		}
		x.Bulk = int64(n) - 1
		x.InputID = hashBytes(t.doc.B)
		x.Outcome = fmt.Sprint(len(sigs))
		x.Trivial = x.Cost() == 0
	}
}

func init() {
	register(&mc.Check{Property: "C15",
		Spaces: func(tier string) []mc.Space {
			all, gs := seeds(), genSeeds()
			var small []seed
			for _, s := range gs {
				if s.kind == "xmp" || len(s.doc.B) < 700 {
					small = append(small, s)
				}
			}
			mb, stride := 1, 37
			mcfg := c15FewConfigs()
			if tier == "thorough" {
				mb, stride = 2, 5
			}
			sp := []mc.Space{
				{Name: "seeds-all-configurations", H: c15Seeds(all, c15AllConfigs()), NoLevels: true, Isolate: true,
					Rule: "every (seed, accepting entry point) under the default configuration (fds 1 and 2 captured) and under 8 levels {trace..panic, disabled} x 3 writers {discarding, failing, short-writing} set through imagemeta.SetLogger"},
				{Name: "malformations", H: c15Malformations(gs, mb, mcfg), Bound: mb, Isolate: true,
					Rule: "every structural field of every generated seed x its malformation menu (up to the bound simultaneously) x every accepting entry point x {default, trace/debug/info/warn/error/panic with the discarding writer, trace with the failing and short-writing writers, disabled}"},
				{Name: "truncations-at-structure-boundaries", H: c15Truncations(gs, mcfg), NoLevels: true, Isolate: true,
					Rule: "every generated seed cut at both ends (+-1) of every structural field and at every 64th byte x the same configurations"},
				{Name: "byte-substitutions-small-seeds", H: c15ByteSubst(small, stride, []int{0, 3, 12}), NoLevels: true, Isolate: true,
					Rule: fmt.Sprintf("every byte of the XMP seed and of the generated seeds below 700 bytes x values with stride %d (position-dependent phase) x {default, trace, debug, error}", stride)},
				{Name: "large-payload-malformations", H: c15Malformations(bigSeeds(), 1, []int{0, 12}), Bound: 1, Isolate: true,
					Rule: "the large-payload seeds x every single-field malformation x {default, trace, error}"},
			}
			sp = append(sp, mc.Space{Name: "jpeg-marker-structures", H: c15Seeds(jpegStructureSeeds(), mcfg), NoLevels: true, Isolate: true,
				Rule: "the JPEG marker-structure streams (bare SOI / EOI between segments, metadata after an EOI, stand-alone markers TEM / RSTn before the first table) x every JPEG entry point x the configuration sweep"})
			sp = append(sp, mc.Space{Name: "cr3-trees", H: c15Trees(mcfg), Bound: mb, Isolate: true,
				Rule: "the CR3 box-tree generator of C11 (payload size menus, skeleton variants, unknown boxes, 64-bit sizes, many ftyp brands, metadata children with content too short for their type; all sizes honest) x both byte orders x Decode, DecodeCR3, PreviewCR3, isobmff.Reader x the configuration sweep"})
			return sp
		},
		Assumptions: []string{
			"default configuration = the values the packages' Logger variables have at process start (restored before each default run); other configurations are set through imagemeta.SetLogger as an application would",
			"bytes written to fds 1 and 2 are captured per call by dup2 onto a scratch file; nothing is demanded of fds 1/2 under a non-default configuration (zerolog itself reports a failing writer on stderr)",
			"loggers installed with hooks or samplers by assigning the package variables directly are not explored",
		},
	})
}
