package main

import (
	"bytes"
	"encoding/binary"
	"encoding/hex"
	"fmt"
	"github.com/evanoberholster/imagemeta/exif2/ifds"
	"github.com/evanoberholster/imagemeta/imagetype"
	"io"

	"verif/envio"
	"verif/gen"
	"verif/mc"
	"verif/obs"

	"github.com/evanoberholster/imagemeta"
	"github.com/evanoberholster/imagemeta/exif2"
	"github.com/evanoberholster/imagemeta/verifshim/vsync"
	"github.com/rs/zerolog"
)

// pristine puts every piece of process-global library state back to its
// initial value: pools empty, time zone cache empty, default (silent) logger.
func pristine() {
	vsync.Chooser = nil
	vsync.ResetPools()
	exif2.VerifResetTimeZoneCache()
	normalise()
}

// normalise makes a fixed set of cheap calls so that whatever the library remembers outside the pools (a memo of
// the last call, a lazily built or lazily patched table) is in the same state at the start of every execution, in a
// worker that has run thousands of other executions as in the replay that runs one alone: a failure that depends on
// such state is then reproducible, and the execution that exposes it is the one that reports it.
var zero24 = make([]byte, 24)

func normalise() {
	imagetype.Buf(zero24)
	_ = ifds.SubIfd0.TagName(0x0111)
	_ = ifds.SubIfd7.TagName(0x0117)
	_ = ifds.IFD0.TagName(0x0111)
}

func defaultLogger() {
	imagemeta.SetLogger(io.Discard, zerolog.PanicLevel)
}

func hexInput(b []byte) string {
	if len(b) > 6000 {
		return hex.EncodeToString(b[:6000]) + fmt.Sprintf("...(%d bytes total)", len(b))
	}
	return hex.EncodeToString(b)
}

var byteOrders = []binary.ByteOrder{binary.LittleEndian, binary.BigEndian}
var boName = []string{"II", "MM"}

// decodeResult is the outcome of one decode call.
type decodeResult struct {
	Exif  exif2.Exif
	Err   error
	Panic *mc.PanicInfo
}

func (d decodeResult) errString() string {
	if d.Panic != nil {
		return "PANIC " + d.Panic.Signature()
	}
	if d.Err == nil {
		return "<nil>"
	}
	return d.Err.Error()
}

// runDecode calls f on a fresh in-memory reader.
func runDecode(f func(r io.ReadSeeker) (exif2.Exif, error), b []byte) (d decodeResult) {
	d.Panic = mc.Guard(func() { d.Exif, d.Err = f(bytes.NewReader(b)) })
	return
}

// runDecodeReader calls f on a reader the caller has prepared (e.g. positioned).
func runDecodeReader(f func(r io.ReadSeeker) (exif2.Exif, error), r io.ReadSeeker) (d decodeResult) {
	d.Panic = mc.Guard(func() { d.Exif, d.Err = f(r) })
	return
}

// runDecodeChunked calls f on a reader that delivers at most k bytes per Read (k = 0: as much as asked).
func runDecodeChunked(f func(r io.ReadSeeker) (exif2.Exif, error), b []byte, k int) (d decodeResult) {
	if k == 0 {
		return runDecode(f, b)
	}
	rd := envio.New(b)
	rd.Policy = envio.Policy{MaxChunk: k}
	rd.Budget = 1 << 40
	d.Panic = mc.Guard(func() { d.Exif, d.Err = f(rd) })
	return
}

func exif2Parse(r io.ReadSeeker) (exif2.Exif, error) { return exif2.Parse(r) }

// failPanic records a panic failure with its materialised input.
func failPanic(x *mc.Exec, pi *mc.PanicInfo, entry string, input []byte, extra map[string]string) {
	det := map[string]string{"entry": entry, "panic": pi.Value, "stack": pi.Stack, "input_hex": hexInput(input), "deviations": x.DevLabels()}
	for k, v := range extra {
		det[k] = v
	}
	x.Fail(pi.Signature(), fmt.Sprintf("%s panicked: %s (in %s)", entry, pi.Value, pi.Func), det)
}

// failMismatch records a functional mismatch.
func failMismatch(x *mc.Exec, where string, got, want obs.Obs, diff []string, input []byte, extra map[string]string) {
	sig := fmt.Sprintf("mismatch|%s|%s|%v", where, x.DevLabels(), diff)
	det := map[string]string{"where": where, "differing": obs.Explain(got, want, diff), "input_hex": hexInput(input), "deviations": x.DevLabels()}
	for k, v := range extra {
		det[k] = v
	}
	x.Fail(sig, fmt.Sprintf("%s: %s [deviations %s]", where, obs.Explain(got, want, diff), x.DevLabels()), det)
}

func mustSelfCheck(rec *gen.Rec, lay gen.Layout, doc *gen.Doc, dirs []int) {
	if err := gen.SelfCheck(rec, lay, doc, dirs); err != nil {
		panic(mc.HarnessError{Msg: "tiffgen self-validation: " + err.Error()})
	}
}
