package main

// C09 — image-type sniffing is a total, prefix-only, signature-correct
// classification of the first 24 bytes.

import (
	"bufio"
	"bytes"
	"encoding/binary"
	"fmt"
	"io"
	"os"
	"path/filepath"
	"strings"
	"verif/gen"

	"verif/mc"

	"github.com/evanoberholster/imagemeta"
	"github.com/evanoberholster/imagemeta/imagetype"
)

// ---- independently written signature table (format specifications) ----
//
// must[F]: headers that certainly carry F's standard signature; the sniffers
//          must answer F (the most specific F when CR2/TIFF overlap).
// may[F]:  the widest reading of "carries F's signature"; a sniffer may only
//          answer F if may[F] holds.

type sig struct {
	t    imagetype.ImageType
	must func(b []byte) bool
	may  func(b []byte) bool
}

func has(b []byte, off int, s string) bool { return string(b[off:off+len(s)]) == s }

func tiffSig(b []byte) bool { return has(b, 0, "II*\x00") || has(b, 0, "MM\x00*") }
func ftypBox(b []byte) bool { return b[0] == 0 && b[1] == 0 && has(b, 4, "ftyp") }
func brandAnywhere(b []byte, brands ...string) bool {
	for _, br := range brands {
		if has(b, 8, br) || has(b, 16, br) || has(b, 20, br) {
			return true
		}
	}
	return false
}

var heifBrands = []string{"heic", "heix", "hevc", "hevx", "heim", "heis", "hevm", "hevs", "mif1", "msf1"}

var sigTable = []sig{
	{imagetype.ImageJPEG,
		func(b []byte) bool { return has(b, 0, "\xff\xd8\xff") || has(b, 0, "\x00\x00\x00\x0cjP  \r\n\x87\n") },
		func(b []byte) bool { return has(b, 0, "\xff\xd8") || has(b, 0, "\x00\x00\x00\x0cjP  \r\n\x87\n") }},
	{imagetype.ImagePNG,
		func(b []byte) bool { return has(b, 0, "\x89PNG\r\n\x1a\n") },
		func(b []byte) bool { return has(b, 0, "\x89PNG") }},
	{imagetype.ImageGIF,
		func(b []byte) bool { return has(b, 0, "GIF87a") || has(b, 0, "GIF89a") },
		func(b []byte) bool { return has(b, 0, "GIF87a") || has(b, 0, "GIF89a") }},
	{imagetype.ImageBMP,
		func(b []byte) bool { return has(b, 0, "BM") },
		func(b []byte) bool { return has(b, 0, "BM") }},
	{imagetype.ImageWebP,
		func(b []byte) bool { return has(b, 0, "RIFF") && has(b, 8, "WEBP") },
		func(b []byte) bool { return has(b, 0, "RIFF") && has(b, 8, "WEBP") }},
	{imagetype.ImageCRW,
		func(b []byte) bool { return has(b, 0, "II") && has(b, 6, "HEAPCCDR") }, // CIFF: byte order, header length (any), "HEAPCCDR"
		func(b []byte) bool { return (has(b, 0, "II") || has(b, 0, "MM")) && has(b, 6, "HEAPCCDR") }},
	{imagetype.ImageCR2,
		func(b []byte) bool { return tiffSig(b) && has(b, 8, "CR\x02\x00") },
		func(b []byte) bool { return tiffSig(b) && has(b, 8, "CR\x02\x00") }},
	{imagetype.ImageTiff, tiffSig, tiffSig},
	{imagetype.ImagePanaRAW,
		func(b []byte) bool { return has(b, 0, "IIU\x00") && has(b, 8, "\x88\xe7\x74\xd8") },
		func(b []byte) bool { return has(b, 0, "IIU\x00") }},
	{imagetype.ImageCR3,
		func(b []byte) bool { return ftypBox(b) && has(b, 8, "crx ") },
		func(b []byte) bool { return ftypBox(b) && has(b, 8, "crx ") }},
	{imagetype.ImageAVIF,
		func(b []byte) bool { return ftypBox(b) && has(b, 8, "avif") },
		func(b []byte) bool { return ftypBox(b) && brandAnywhere(b, "avif", "avis") }},
	{imagetype.ImageHEIF,
		func(b []byte) bool { return ftypBox(b) && (has(b, 8, "heic") || has(b, 8, "heix")) },
		func(b []byte) bool { return ftypBox(b) && brandAnywhere(b, heifBrands...) }},
	{imagetype.ImagePSD,
		func(b []byte) bool { return has(b, 0, "8BPS\x00\x01") },
		func(b []byte) bool { return has(b, 0, "8BPS") }},
	{imagetype.ImageXMP,
		func(b []byte) bool { return has(b, 0, "<x:xmpmeta") },
		func(b []byte) bool { return has(b, 0, "<x:xmpmeta") }},
	{imagetype.ImagePPM,
		func(b []byte) bool {
			return b[0] == 'P' && (b[1] == '3' || b[1] == '6') && (b[2] == ' ' || b[2] == '\n' || b[2] == '\r' || b[2] == '\t')
		},
		func(b []byte) bool {
			return b[0] == 'P' && (b[1] == '3' || b[1] == '6') && (b[2] == ' ' || b[2] == '\n' || b[2] == '\r' || b[2] == '\t')
		}},
}

// judge applies the table to a 24-byte header and the observed answer.
// It returns "" or a failure kind.
func judge(b []byte, got imagetype.ImageType, err error) string {
	if (got == imagetype.ImageUnknown) != (err == imagetype.ErrImageTypeNotFound) {
		return "unknown<=>ErrImageTypeNotFound"
	}
	if got != imagetype.ImageUnknown && err != nil {
		return "type-with-error"
	}
	var musts []imagetype.ImageType
	mayOK := got == imagetype.ImageUnknown
	for i := range sigTable {
		s := &sigTable[i]
		if s.must(b) {
			musts = append(musts, s.t)
		}
		if s.t == got && s.may(b) {
			mayOK = true
		}
	}
	if !mayOK {
		return fmt.Sprintf("answer %s without its signature", got)
	}
	// every signature that certainly matches must either be the answer or be
	// the generic TIFF signature overridden by a more specific TIFF-like format
	// whose own signature matches (CR2 exactly; CRW, whose "II"+length+HEAPCCDR
	// header can coincide with the TIFF magic when the length field is 0x2a)
	for _, m := range musts {
		if got == m {
			continue
		}
		if m == imagetype.ImageTiff && (got == imagetype.ImageCR2 || got == imagetype.ImageCRW) {
			continue // may[got] was established above
		}
		return fmt.Sprintf("signature of %s present but answer is %s", m, got)
	}
	return ""
}

func canonicalHeaders() (names []string, hs [][]byte) {
	add := func(n string, s string) {
		b := make([]byte, 24)
		copy(b, s)
		names = append(names, n)
		hs = append(hs, b)
	}
	add("jpeg-jfif", "\xff\xd8\xff\xe0\x00\x10JFIF\x00\x01\x01\x00\x00\x48\x00\x48\x00\x00\xff\xdb\x00\x43")
	add("jpeg-exif", "\xff\xd8\xff\xe1\x12\x34Exif\x00\x00II*\x00\x08\x00\x00\x00\x0b\x00\x0f\x01")
	add("jp2", "\x00\x00\x00\x0cjP  \r\n\x87\n\x00\x00\x00\x14ftypjp2 ")
	add("png", "\x89PNG\r\n\x1a\n\x00\x00\x00\rIHDR\x00\x00\x01\x00\x00\x00\x01\x00")
	add("gif87", "GIF87a\x10\x00\x10\x00\x80\x00\x00\x00\x00\x00\xff\xff\xff\x2c\x00\x00\x00\x00")
	add("gif89", "GIF89a\x10\x00\x10\x00\x80\x00\x00\x00\x00\x00\xff\xff\xff\x21\xf9\x04\x00\x00")
	add("bmp", "BM\x36\x00\x0c\x00\x00\x00\x00\x00\x36\x00\x00\x00\x28\x00\x00\x00\x00\x02\x00\x00\x00\x02")
	add("webp", "RIFF\x24\x10\x00\x00WEBPVP8 \x18\x10\x00\x00\x30\x01\x00\x9d")
	add("crw", "II\x1a\x00\x00\x00HEAPCCDR\x02\x00\x01\x00\x00\x00\x00\x00\x00\x00")
	add("cr2-ii", "II*\x00\x10\x00\x00\x00CR\x02\x00\x34\x18\x01\x00\x12\x00\x00\x01\x03\x00\x01\x00")
	add("cr2-mm", "MM\x00*\x00\x00\x00\x10CR\x02\x00\x00\x01\x18\x34\x00\x12\x01\x00\x00\x03\x00\x00")
	add("tiff-ii", "II*\x00\x08\x00\x00\x00\x0b\x00\x0f\x01\x02\x00\x06\x00\x00\x00\x92\x00\x00\x00\x10\x01")
	add("tiff-mm", "MM\x00*\x00\x00\x00\x08\x00\x0b\x01\x0f\x00\x02\x00\x00\x00\x06\x00\x00\x00\x92\x01\x10")
	add("rw2", "IIU\x00\x18\x00\x00\x00\x88\xe7\x74\xd8\xf8\x25\x1d\x4d\x94\x7a\x6e\x77\x82\x2b\x5d\x6a")
	add("cr3", "\x00\x00\x00\x18ftypcrx \x00\x00\x00\x01crx isom")
	add("avif", "\x00\x00\x00\x20ftypavif\x00\x00\x00\x00avifmif1")
	add("avif-mif1", "\x00\x00\x00\x1cftypmif1\x00\x00\x00\x00mif1avif")
	add("heic", "\x00\x00\x00\x18ftypheic\x00\x00\x00\x00mif1heic")
	add("heic2", "\x00\x00\x00\x18ftypheic\x00\x00\x00\x00heicmif1")
	add("heix", "\x00\x00\x00\x1cftypheix\x00\x00\x00\x00mif1heix")
	add("mif1-heic16", "\x00\x00\x00\x1cftypmif1\x00\x00\x00\x00heicmif1")
	add("mif1-heic20", "\x00\x00\x00\x1cftypmif1\x00\x00\x00\x00mif1heic")
	add("msf1-hevc", "\x00\x00\x00\x1cftypmsf1\x00\x00\x00\x00msf1hevc")
	add("mp4", "\x00\x00\x00\x18ftypmp42\x00\x00\x00\x00mp42isom")
	add("psd", "8BPS\x00\x01\x00\x00\x00\x00\x00\x00\x00\x03\x00\x00\x02\x00\x00\x00\x02\x00\x00\x08")
	add("xmp", "<x:xmpmeta xmlns:x=\"adobe")
	add("xmp-xpacket", "<?xpacket begin=\"\xef\xbb\xbf\" id=")
	add("ppm-p6", "P6\n640 480\n255\n\x00\x00\x00\x00\x00\x00\x00\x00\x00")
	add("ppm-p3", "P3 4 4 15 0 0 0 0 0 0 0 ")
	add("zeros", "")
	add("text", "Hello, this is no image!")
	add("ones", "\xff\xff\xff\xff\xff\xff\xff\xff\xff\xff\xff\xff\xff\xff\xff\xff\xff\xff\xff\xff\xff\xff\xff\xff")
	// the repository's own 32-byte test records
	if data, err := os.ReadFile(filepath.Join(repoDir(), "imagetype", "test.dat")); err == nil {
		for i := 0; i+32 <= len(data); i += 32 {
			names = append(names, fmt.Sprintf("test.dat#%d", i/32))
			hs = append(hs, append([]byte{}, data[i:i+24]...))
		}
	}
	return
}

func allZero(b []byte) bool {
	for _, c := range b {
		if c != 0 {
			return false
		}
	}
	return true
}

// chunkedReader delivers at most k bytes per Read (k = 1: one byte at a time).
type chunkedReader struct {
	b []byte
	k int
}

func (c *chunkedReader) Read(p []byte) (int, error) {
	if len(c.b) == 0 {
		return 0, io.EOF
	}
	n := c.k
	if n > len(p) {
		n = len(p)
	}
	if n > len(c.b) {
		n = len(c.b)
	}
	copy(p, c.b[:n])
	c.b = c.b[n:]
	return n, nil
}

type raOnly struct{ r *bytes.Reader }

func (r raOnly) ReadAt(p []byte, off int64) (int, error) { return r.r.ReadAt(p, off) }

// raEOF is a ReaderAt that reports io.EOF together with the last bytes of the source, as the
// io.ReaderAt contract allows ("may return either err == EOF or err == nil" when n == len(p)).
// seekOnly hides every method of the source but Read and Seek
type seekOnly struct{ r *bytes.Reader }

func (s seekOnly) Read(p []byte) (int, error)         { return s.r.Read(p) }
func (s seekOnly) Seek(o int64, w int) (int64, error) { return s.r.Seek(o, w) }

type raEOF struct{ b []byte }

func (r raEOF) ReadAt(p []byte, off int64) (int, error) {
	if off >= int64(len(r.b)) {
		return 0, io.EOF
	}
	n := copy(p, r.b[off:])
	if off+int64(n) == int64(len(r.b)) {
		return n, io.EOF
	}
	return n, nil
}

// fourWay runs all four entry points on stream and compares them with
// Buf(stream[:24]); it also checks that ScanBuf did not consume.
func fourWay(orig []byte) (imagetype.ImageType, error, string) {
	var t0 imagetype.ImageType
	var e0 error
	// the classifiers get a private copy with spare capacity: sniffing must not alter the bytes it is shown
	// (callers hand in windows of their own buffers, e.g. a bufio.Reader's Peek)
	stream := append(make([]byte, 0, len(orig)+64), orig...)
	defer func() {}()
	if len(stream) >= 24 {
		t0, e0 = imagetype.Buf(stream[:24])
		if !bytes.Equal(stream[:len(orig)+64][:len(orig)], orig) || !allZero(stream[len(orig):len(orig)+64]) {
			return t0, e0, "Buf-modified-its-argument"
		}
		t1, e1 := imagetype.Buf(stream)
		if t1 != t0 || (e1 == nil) != (e0 == nil) || (e0 != nil && e1 != e0) {
			return t0, e0, "Buf(b)!=Buf(b[:24])"
		}
	} else {
		t0, e0 = imagetype.Buf(stream)
		if t0 != imagetype.ImageUnknown || e0 == nil {
			return t0, e0, "short-stream-accepted-by-Buf"
		}
	}
	cls := func(err error) string {
		switch {
		case err == nil:
			return "nil"
		case err == imagetype.ErrImageTypeNotFound:
			return "notfound"
		default:
			return "error" // ErrDataLength, io.EOF, io.ErrUnexpectedEOF: "an error" for short streams
		}
	}
	t2, e2 := imagetype.Scan(bytes.NewReader(stream))
	if t2 != t0 || cls(e2) != cls(e0) {
		return t0, e0, fmt.Sprintf("Scan=%s/%s Buf=%s/%s", t2, cls(e2), t0, cls(e0))
	}
	br := bufio.NewReaderSize(bytes.NewReader(stream), 64)
	t3, e3 := imagetype.ScanBuf(br)
	if t3 != t0 || cls(e3) != cls(e0) {
		return t0, e0, fmt.Sprintf("ScanBuf=%s/%s Buf=%s/%s", t3, cls(e3), t0, cls(e0))
	}
	rest, _ := io.ReadAll(br)
	if !bytes.Equal(rest, stream) {
		return t0, e0, "ScanBuf-consumed-the-stream"
	}
	t4, e4 := imagetype.ReadAt(raOnly{bytes.NewReader(stream)})
	if t4 != t0 || cls(e4) != cls(e0) {
		return t0, e0, fmt.Sprintf("ReadAt=%s/%s Buf=%s/%s", t4, cls(e4), t0, cls(e0))
	}
	t8, e8 := imagetype.ReadAt(raEOF{stream})
	if t8 != t0 || cls(e8) != cls(e0) {
		return t0, e0, fmt.Sprintf("ReadAt(source that reports EOF with its last bytes)=%s/%s Buf=%s/%s", t8, cls(e8), t0, cls(e0))
	}
	// Scan on a bufio.Reader the caller owns must not consume either
	br2 := bufio.NewReaderSize(bytes.NewReader(stream), 4096)
	t5, e5 := imagetype.Scan(br2)
	rest, _ = io.ReadAll(br2)
	if t5 != t0 || cls(e5) != cls(e0) || !bytes.Equal(rest, stream) {
		return t0, e0, "Scan(bufio.Reader)-differs-or-consumed"
	}
	// readers that deliver the stream in pieces: same answer (the first Read need not fill the window)
	for _, k := range []int{1, 7, 23} {
		t6, e6 := imagetype.Scan(&chunkedReader{append([]byte{}, orig...), k})
		if t6 != t0 || cls(e6) != cls(e0) {
			return t0, e0, fmt.Sprintf("Scan(%d-byte reads)=%s/%s Buf=%s/%s", k, t6, cls(e6), t0, cls(e0))
		}
		t7, e7 := imagetype.ScanBuf(bufio.NewReaderSize(&chunkedReader{append([]byte{}, orig...), k}, 32))
		if t7 != t0 || cls(e7) != cls(e0) {
			return t0, e0, fmt.Sprintf("ScanBuf(%d-byte reads)=%s/%s Buf=%s/%s", k, t7, cls(e7), t0, cls(e0))
		}
	}
	if !bytes.Equal(stream[:len(orig)], orig) || !allZero(stream[len(orig) : len(orig)+64][:64]) {
		return t0, e0, "a classifier modified its argument"
	}
	if len(stream) < 24 && (t0 != imagetype.ImageUnknown || e0 == nil || e2 == nil || e3 == nil || e4 == nil) {
		return t0, e0, "short-stream-accepted"
	}
	return t0, e0, ""
}

func init() {
	names, hs := canonicalHeaders()
	suffixes := [][]byte{nil, {0x00}, bytes.Repeat([]byte{0xff}, 4096), []byte("\xff\xd8\xff\xe1\x00\x10Exif\x00\x00II*\x00\x08\x00\x00\x00"), []byte("\x00\x00\x00\x18ftypcrx \x00\x00\x00\x01crx isom")}
	// every signature token any predicate looks for, right after the 24-byte window
	// (a brand list or a magic number continuing beyond the window must not count)
	for _, tok := range []string{"avif", "avis", "heic", "heix", "hevc", "mif1", "msf1", "miaf", "crx ", "isom", "II*\x00", "MM\x00*", "HEAP", "CCDR", "8BPS", "RIFF", "WEBP", "CR\x02\x00", "\x89PNG", "GIF8", "\xff\xd8\xff\xe0", "<?xp", "<x:x", "IIU\x00", "ftyp", "jP  "} {
		suffixes = append(suffixes, []byte(tok), append([]byte{0, 0, 0, 0}, tok...), bytes.Repeat([]byte(tok), 6))
	}
	report := func(x *mc.Exec, fs *failSet, b []byte, kind string) {
		fs.add(kind, fmt.Sprintf("header % x", b))
	}
	// (1) single byte perturbations: all four entry points
	h1 := func(x *mc.Exec) {
		normalise()
		hi := x.All("header", len(hs))
		pos := x.All("position", 24)
		x.Note("header", names[hi])
		fs := newFailSet("sniff.1byte")
		b := append([]byte{}, hs[hi]...)
		outcomes := map[imagetype.ImageType]bool{}
		for v := 0; v < 256; v++ {
			b[pos] = byte(v)
			var t imagetype.ImageType
			var err error
			var k string
			pi := mc.Guard(func() { t, err, k = fourWay(b) })
			if pi != nil {
				report(x, fs, b, pi.Signature())
				continue
			}
			if k != "" {
				report(x, fs, b, "entry-points-disagree: "+k)
			}
			if k2 := judge(b, t, err); k2 != "" {
				report(x, fs, b, k2)
			}
			outcomes[t] = true
			// suffix independence
			if v%16 == int(pos)%16 {
				for _, s := range suffixes[1:] {
					st := append(append([]byte{}, b...), s...)
					t2, _, k3 := fourWay(st)
					if k3 != "" || t2 != t {
						report(x, fs, b, "suffix-dependence "+k3)
					}
				}
			}
		}
		x.Bulk = 255
		x.Outcome = fmt.Sprint(len(outcomes), " types")
		x.InputID = uint64(hi)<<8 | uint64(pos) + 1
		fs.flush(x, 256)
	}
	// (2) two byte perturbations: Buf against the table
	h2 := func(menu bool) mc.Harness {
		return func(x *mc.Exec) {
			normalise()
			hi := x.All("header", len(hs))
			p1 := x.All("pos1", 23)
			p2 := p1 + 1 + x.All("pos2", 23-p1)
			fs := newFailSet("sniff.2byte")
			b := append([]byte{}, hs[hi]...)
			vals1, vals2 := allBytes, allBytes
			if menu {
				vals1, vals2 = byteMenu(hs, p1), byteMenu(hs, p2)
			}
			n := 0
			for _, v1 := range vals1 {
				b[p1] = v1
				for _, v2 := range vals2 {
					b[p2] = v2
					n++
					t, err := imagetype.Buf(b)
					if k := judge(b, t, err); k != "" {
						report(x, fs, b, k)
					}
				}
			}
			x.Bulk = int64(n) - 1
			x.InputID = uint64(hi)<<16 | uint64(p1)<<8 | uint64(p2) + 1
			x.Outcome = "ok"
			if len(fs.order) > 0 {
				x.Outcome = "fail"
			}
			fs.flush(x, n)
		}
	}
	// (3) splices of two canonical headers on predicate byte ranges
	ranges := [][2]int{{0, 2}, {0, 4}, {2, 4}, {4, 8}, {8, 12}, {6, 14}, {16, 20}, {20, 24}, {0, 12}, {8, 24}, {0, 1}, {1, 2}, {3, 4}, {10, 12}}
	h3 := func(x *mc.Exec) {
		normalise()
		a := x.All("h", len(hs))
		g := x.All("g", len(hs))
		fs := newFailSet("sniff.splice")
		outcomes := map[imagetype.ImageType]bool{}
		n := 0
		for mask := 1; mask < 1<<len(ranges); mask++ {
			// single ranges and pairs of ranges
			if c := popcount(mask); c > 2 {
				continue
			}
			b := append([]byte{}, hs[a]...)
			for ri, r := range ranges {
				if mask&(1<<ri) != 0 {
					copy(b[r[0]:r[1]], hs[g][r[0]:r[1]])
				}
			}
			n++
			var t imagetype.ImageType
			var err error
			var k string
			pi := mc.Guard(func() { t, err, k = fourWay(b) })
			if pi != nil {
				report(x, fs, b, pi.Signature())
				continue
			}
			if k != "" {
				report(x, fs, b, "entry-points-disagree: "+k)
			}
			if k2 := judge(b, t, err); k2 != "" {
				report(x, fs, b, k2)
			}
			outcomes[t] = true
		}
		x.Bulk = int64(n) - 1
		x.Trivial = a == g
		x.InputID = uint64(a)<<8 | uint64(g) + 1
		x.Outcome = fmt.Sprint(len(outcomes), " types")
		fs.flush(x, n)
	}
	// (4) truncations and suffixes
	h4 := func(x *mc.Exec) {
		normalise()
		hi := x.All("header", len(hs))
		L := x.All("length", 25)
		si := x.All("suffix", len(suffixes))
		fs := newFailSet("sniff.length")
		st := append([]byte{}, hs[hi][:L]...)
		if L == 24 {
			st = append(st, suffixes[si]...)
		} else if si > 1 {
			x.Trivial = true // suffixes only apply to full headers; shorter streams are plain truncations
		}
		var t imagetype.ImageType
		var k string
		pi := mc.Guard(func() { t, _, k = fourWay(st) })
		if pi != nil {
			report(x, fs, st[:min(len(st), 24)], pi.Signature())
		} else if k != "" {
			report(x, fs, st[:min(len(st), 24)], "entry-points-disagree: "+k)
		}
		if L == 24 {
			t0, _ := imagetype.Buf(append([]byte{}, hs[hi]...))
			if t != t0 {
				report(x, fs, st[:24], "suffix-dependence")
			}
		}
		x.Outcome = t.String()
		x.InputID = hashBytes(st)
		fs.flush(x, 1)
	}
	// (5) every value of the first three bytes in front of fixed rests: answers against the table, and the
	// window handed to Buf must come back unchanged
	rests := [][]byte{
		bytes.Repeat([]byte{'x'}, 21),
		append([]byte("II*\x00\x08\x00\x00\x00"), bytes.Repeat([]byte{0}, 13)...),
		[]byte("\x18ftypheic\x00\x00\x00\x00mif1heic"),
		[]byte("\x00\x10JFIF\x00\x01\x01\x00\x00\x48\x00\x48\x00\x00\xff\xe1\x00\x10Ex"),
	}
	h5 := func(x *mc.Exec) {
		normalise()
		b0 := byte(x.All("first-byte", 256))
		ri := x.All("rest", len(rests))
		fs := newFailSet("sniff.3byte-prefix")
		b := append([]byte{b0, 0, 0}, rests[ri]...)
		ref := append([]byte{}, b...)
		n := 0
		src := bytes.NewReader(nil)
		br := bufio.NewReaderSize(src, 64)
		for v1 := 0; v1 < 256; v1++ {
			for v2 := 0; v2 < 256; v2++ {
				b[1], b[2] = byte(v1), byte(v2)
				ref[1], ref[2] = b[1], b[2]
				n++
				t, err := imagetype.Buf(b)
				if !bytes.Equal(b, ref) {
					report(x, fs, ref, "Buf-modified-its-argument")
					copy(b, ref)
				}
				if k := judge(b, t, err); k != "" {
					report(x, fs, b, k)
				}
				// the reader-based entry points see the same bytes: same answer, and ScanBuf only peeks
				src.Reset(b)
				br.Reset(src)
				t2, err2 := imagetype.ScanBuf(br)
				if t2 != t || (err2 == nil) != (err == nil) {
					report(x, fs, b, "ScanBuf-differs-from-Buf")
				}
				if w, _ := br.Peek(len(b)); !bytes.Equal(w, b) {
					report(x, fs, b, "ScanBuf-consumed-bytes")
				}
				src.Reset(b)
				t3, err3 := imagetype.Scan(struct{ io.Reader }{src})
				if t3 != t || (err3 == nil) != (err == nil) {
					report(x, fs, b, "Scan-differs-from-Buf")
				}
			}
		}
		x.Bulk = int64(n) - 1
		x.InputID = uint64(b0)<<8 | uint64(ri) | 1<<40
		x.Outcome = fmt.Sprint(len(fs.order))
		fs.flush(x, n)
	}
	// (6) Decode sniffs the stream it is given: a ReadSeeker that stands behind other bytes (a second image in a file, an
	// image behind a wrapper header) is classified and decoded like the same bytes alone
	h6 := func(x *mc.Exec) {
		normalise()
		ss := seeds()
		s := ss[x.All("seed", len(ss))]
		pi := x.All("prefix", len(hs)+2)
		var pre []byte
		switch {
		case pi < len(hs):
			pre = append(append([]byte{}, hs[pi]...), bytes.Repeat([]byte{0}, 8)...)
		case pi == len(hs):
			pre = bytes.Repeat([]byte{'x'}, 100)
		default:
			pre = bytes.Repeat([]byte{0xff}, 4096)
		}
		hide := x.All("hide-ReaderAt", 2) == 1
		pristine()
		ref := runDecode(imagemeta.Decode, s.doc.B)
		pristine()
		whole := append(append([]byte{}, pre...), s.doc.B...)
		var got decodeResult
		run := func(r io.ReadSeeker) {
			r.Seek(int64(len(pre)), io.SeekStart)
			got = runDecodeReader(imagemeta.Decode, r)
		}
		if hide {
			run(seekOnly{bytes.NewReader(whole)})
		} else {
			run(bytes.NewReader(whole))
		}
		a, b := exifOutcome(ref.Exif, ref.Err), exifOutcome(got.Exif, got.Err)
		if ref.Panic != nil {
			a = "PANIC " + ref.Panic.Signature()
		}
		if got.Panic != nil {
			b = "PANIC " + got.Panic.Signature()
		}
		if a != b {
			x.Fail("mismatch|imagemeta.Decode|positioned-reader", fmt.Sprintf("Decode of seed %s through a ReadSeeker standing at offset %d (behind %d other bytes) returns %s ; the same bytes alone give %s", s.name, len(pre), len(pre), truncStr(b, 300), truncStr(a, 300)),
				map[string]string{"seed": s.name, "prefix_hex": hexInput(pre)})
		}
		x.InputID = hashBytes([]byte(fmt.Sprint(s.name, pi, hide)))
		x.Outcome = s.kind
	}
	// (7) the type Decode reports is the type of the first 24 bytes, wherever the Exif block of a HEIF stream starts
	// (the header search walks through several buffer fills before it finds the block)
	h7 := func(x *mc.Exec) {
		normalise()
		var heic []byte
		for i, n := range names {
			if strings.Contains(strings.ToLower(n), "hei") {
				heic = hs[i]
				break
			}
		}
		if heic == nil {
			panic(mc.HarnessError{Msg: "c09: no HEIF header among the canonical headers"})
		}
		wi := x.All("window", 4)
		base := []int{24, 4030, 8100, 12170}[wi]
		mark := [][]byte{nil, {0xff, 0xd8, 0xff, 0xe0}, []byte("BM"), []byte("\x89PNG\r\n\x1a\n")}[x.All("foreign-signature-before-the-block", 4)]
		tb := gen.EncodeTIFF(gen.MinimalRecord(), gen.CanonicalLayout(), binary.BigEndian, gen.AllDirs).B
		fs := newFailSet("decode.type-with-late-header")
		n := 0
		pristine()
		wantT, _ := imagetype.Buf(append([]byte{}, heic...))
		for k := base; k < base+90; k++ {
			st := append([]byte{}, heic...)
			for len(st) < k {
				st = append(st, 'x')
			}
			if mark != nil && k-40 > 24 {
				copy(st[k-40:], mark)
			}
			st = append(append(st, tb...), bytes.Repeat([]byte{0}, 64)...)
			n++
			d := runDecode(imagemeta.Decode, st)
			if d.Panic != nil {
				fs.add(d.Panic.Signature(), d.Panic.Value)
				continue
			}
			if d.Err == nil && d.Exif.ImageType != wantT {
				fs.add("type-differs-from-the-first-24-bytes", fmt.Sprintf("HEIF header, Exif block at offset %d: Decode reports %v, the first 24 bytes say %v", k, d.Exif.ImageType, wantT))
			}
			if d.Err != nil || d.Exif.Make == "" {
				fs.add("block-not-decoded", fmt.Sprintf("HEIF header, Exif block at offset %d: err=%v make=%q", k, d.Err, d.Exif.Make))
			}
		}
		x.Bulk = int64(n) - 1
		x.InputID = hashBytes([]byte(fmt.Sprint("late", wi, len(mark))))
		x.Outcome = fmt.Sprint(len(fs.order))
		fs.flush(x, n)
	}
	register(&mc.Check{
		Property: "C09",
		Spaces: func(tier string) []mc.Space {
			sp := []mc.Space{
				{Name: "one-byte-perturbations", H: h1, NoLevels: true, Rule: "canonical header x byte position x all 256 values; all four entry points + independent signature table; non-trivial = all"},
				{Name: "splices", H: h3, NoLevels: true, Rule: "ordered pairs of canonical headers x one or two predicate byte ranges taken from the second; trivial when both headers are the same"},
				{Name: "lengths-and-suffixes", H: h4, NoLevels: true, Rule: "canonical header x every length 0..24 x suffix menu (1 byte, 4 KiB of 0xFF, two foreign headers, and every signature token any predicate looks for placed at bytes 24.., 28.. and repeated)"},
			}
			sp = append(sp, mc.Space{Name: "three-byte-prefixes", H: h5, NoLevels: true, Rule: "all 2^24 values of bytes 0..2 in front of 4 fixed rests (filler, a TIFF header at 3, the rest of an ftyp box, the rest of a JFIF header): Buf against the table, and the 24-byte window must come back unchanged; ScanBuf and Scan on the same bytes give the same answer and ScanBuf leaves every byte in its reader"})
			sp = append(sp, mc.Space{Name: "decode-type-with-late-header", H: h7, NoLevels: true, Rule: "a HEIF header followed by filler and an Exif block at every offset in 24..113, 4030..4119, 8100..8189, 12170..12259 (around the refills of the 4096-byte reader), with and without a JPEG / BMP / PNG signature 40 bytes before the block: imagemeta.Decode reports the type of the first 24 bytes and decodes the block"})
			sp = append(sp, mc.Space{Name: "decode-on-a-positioned-reader", H: h6, NoLevels: true, Rule: "every seed behind every canonical header of another format, behind 100 filler bytes and behind 4096 bytes of 0xFF, handed to imagemeta.Decode as a ReadSeeker standing at the start of the seed (with and without a ReadAt method): type, record and error equal those of the seed alone"})
			if tier == "thorough" {
				sp = append(sp, mc.Space{Name: "two-byte-perturbations", H: h2(false), NoLevels: true, Rule: "canonical header x every position pair x all 65536 value pairs, Buf against the table"})
			} else {
				sp = append(sp, mc.Space{Name: "two-byte-perturbations-menu", H: h2(true), NoLevels: true, Rule: "canonical header x every position pair x per-position menu (bytes any canonical header has there, 0x00, 0xff), Buf against the table"})
			}
			return sp
		},
		Assumptions: []string{
			"signature table in c09.go is typed from the format specifications; must[] (narrow) drives the completeness direction, may[] (wide) the soundness direction, so nothing beyond the statement is demanded",
			"JPEG-2000's signature box is listed under JPEG because the repository's own suite pins it",
			"error identity for short streams is only required to be non-nil (Buf: ErrDataLength, readers: EOF-class)",
		},
	})
}

var allBytes = func() []byte {
	b := make([]byte, 256)
	for i := range b {
		b[i] = byte(i)
	}
	return b
}()

func byteMenu(hs [][]byte, pos int) []byte {
	seen := map[byte]bool{0: true, 0xff: true}
	for _, h := range hs {
		seen[h[pos]] = true
		seen[h[pos]^1] = true
	}
	var out []byte
	for v := 0; v < 256; v++ {
		if seen[byte(v)] {
			out = append(out, byte(v))
		}
	}
	return out
}

func popcount(x int) int {
	n := 0
	for ; x != 0; x &= x - 1 {
		n++
	}
	return n
}

func min(a, b int) int {
	if a < b {
		return a
	}
	return b
}

func hashBytes(b []byte) uint64 {
	var h uint64 = 14695981039346656037
	for _, c := range b {
		h ^= uint64(c)
		h *= 1099511628211
	}
	if h == 0 {
		h = 1
	}
	return h
}
