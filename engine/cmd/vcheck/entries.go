package main

import (
	"bufio"
	"fmt"
	"io"
	"strings"

	"verif/envio"
	"verif/obs"

	"github.com/evanoberholster/imagemeta"
	"github.com/evanoberholster/imagemeta/exif2"
	"github.com/evanoberholster/imagemeta/imagetype"
	"github.com/evanoberholster/imagemeta/isobmff"
	"github.com/evanoberholster/imagemeta/jpeg"
	"github.com/evanoberholster/imagemeta/meta"
	"github.com/evanoberholster/imagemeta/png"
	"github.com/evanoberholster/imagemeta/preview"
	"github.com/evanoberholster/imagemeta/tiff"
	"github.com/evanoberholster/imagemeta/xmp"
)

// roEntry is one public entry point that consumes file bytes.  run returns a
// string that captures the value and the error completely (used to compare
// two runs of the same code: chunking, logging, histories, schedules).
type roEntry struct {
	name  string
	kinds string // seed kinds it is meant for; other kinds are rejected at the signature
	alloc bool   // decode/preview entry point (C14)
	run   func(r *envio.Reader) string
}

func errStr(err error) string {
	if err == nil {
		return "<nil>"
	}
	return err.Error()
}

func exifOutcome(e exif2.Exif, err error) string {
	return obs.Exif(e, true).String() + "|err=" + errStr(err)
}

func hdrOutcome(h meta.ExifHeader, err error) string {
	return fmt.Sprintf("%+v|err=%s", h, errStr(err))
}

var entryPoints = []roEntry{
	{"imagemeta.Decode", "tiff,jpeg,cr3,heif,avif", true, func(r *envio.Reader) string { return exifOutcome(imagemeta.Decode(r)) }},
	{"imagemeta.DecodeTiff", "tiff,heif", true, func(r *envio.Reader) string { return exifOutcome(imagemeta.DecodeTiff(r)) }},
	{"imagemeta.DecodeCR2", "tiff", true, func(r *envio.Reader) string { return exifOutcome(imagemeta.DecodeCR2(r)) }},
	{"imagemeta.DecodeHeif", "heif", true, func(r *envio.Reader) string { return exifOutcome(imagemeta.DecodeHeif(r)) }},
	{"imagemeta.DecodeJPEG", "jpeg", true, func(r *envio.Reader) string { return exifOutcome(imagemeta.DecodeJPEG(r)) }},
	{"imagemeta.DecodePng", "png", true, func(r *envio.Reader) string { return exifOutcome(imagemeta.DecodePng(r)) }},
	{"imagemeta.DecodeCR3", "cr3,avif,heif", true, func(r *envio.Reader) string { return exifOutcome(imagemeta.DecodeCR3(r)) }},
	{"imagemeta.PreviewCR3", "cr3", true, func(r *envio.Reader) string {
		b, err := imagemeta.PreviewCR3(r)
		return fmt.Sprintf("%x|err=%s", b, errStr(err))
	}},
	{"exif2.Parse", "tiff,jpeg,heif", true, func(r *envio.Reader) string { return exifOutcome(exif2.Parse(r)) }},
	{"jpeg.ScanJPEG", "jpeg", false, func(r *envio.Reader) string {
		ir := exif2.NewIfdReader(exif2.Logger)
		defer ir.Close()
		var x xmp.XMP
		var xerr error
		err := jpeg.ScanJPEG(r, ir.DecodeJPEGIfd, func(rr io.Reader) error { x, xerr = xmp.ParseXmp(rr); return nil })
		return exifOutcome(ir.Exif, err) + "|xmp=" + obs.Flatten(x).String() + errStr(xerr)
	}},
	{"jpeg.ScanJPEG(nil callbacks)", "jpeg", false, func(r *envio.Reader) string { return errStr(jpeg.ScanJPEG(r, nil, nil)) }},
	{"tiff.ScanTiffHeader", "tiff,heif,jpeg", false, func(r *envio.Reader) string {
		return hdrOutcome(tiff.ScanTiffHeader(r, imagetype.ImageUnknown))
	}},
	{"png.ScanPngHeader", "png", false, func(r *envio.Reader) string { return hdrOutcome(png.ScanPngHeader(r)) }},
	{"isobmff.Reader", "cr3,heif,avif", true, func(r *envio.Reader) string {
		ir := exif2.NewIfdReader(exif2.Logger)
		defer ir.Close()
		pr := preview.NewPreviewReader(preview.Logger)
		bmr := isobmff.NewReader(r)
		defer bmr.Close()
		bmr.ExifReader = ir.DecodeIfd
		var xlen int
		bmr.XMPReader = func(rr io.Reader) error {
			b, err := io.ReadAll(rr)
			xlen = len(b)
			_ = err
			return nil
		}
		bmr.PreviewImageReader = pr.RenderPreview
		var sb strings.Builder
		sb.WriteString("ftyp=" + errStr(bmr.ReadFTYP()))
		for i := 0; i < 4; i++ {
			sb.WriteString(fmt.Sprintf(";md%d=%s", i, errStr(bmr.ReadMetadata())))
		}
		return sb.String() + "|" + exifOutcome(ir.Exif, nil) + fmt.Sprintf("|xmp=%d|prev=%x", xlen, pr.PreviewImage)
	}},
	{"xmp.ParseXmp", "xmp", true, func(r *envio.Reader) string {
		x, err := xmp.ParseXmp(r)
		return obs.Flatten(x).String() + "|err=" + errStr(err)
	}},
	{"imagetype.Scan", "*", false, func(r *envio.Reader) string {
		t, err := imagetype.Scan(r)
		return t.String() + "|" + errStr(err)
	}},
	{"imagetype.ScanBuf", "*", false, func(r *envio.Reader) string {
		t, err := imagetype.ScanBuf(bufio.NewReaderSize(r, 64))
		return t.String() + "|" + errStr(err)
	}},
	{"imagetype.ReadAt", "*", false, func(r *envio.Reader) string {
		t, err := imagetype.ReadAt(r)
		return t.String() + "|" + errStr(err)
	}},
}

func (e *roEntry) accepts(kind string) bool {
	if e.kinds == "*" {
		return true
	}
	for _, k := range strings.Split(e.kinds, ",") {
		if k == kind {
			return true
		}
	}
	return false
}

// pairs lists the (seed, entry) combinations worth exploring: every entry
// on the seeds it accepts, plus imagemeta.Decode and the sniffers on everything.
type sePair struct {
	s int
	e int
}

func seedEntryPairs(ss []seed) []sePair {
	var out []sePair
	for si, s := range ss {
		for ei := range entryPoints {
			e := &entryPoints[ei]
			if e.accepts(s.kind) || ei == 0 {
				out = append(out, sePair{si, ei})
			}
		}
	}
	return out
}
