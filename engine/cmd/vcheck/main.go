// Command vcheck runs the bounded exhaustive checks for imagemeta.
package main

import (
	"encoding/json"
	"fmt"
	"os"
	"path/filepath"
	"runtime"
	"sort"
	"strconv"
	"time"

	"verif/mc"
)

var registry = map[string]*mc.Check{}

func register(c *mc.Check) {
	if c.Level == "" {
		c.Level = "model_checking"
	}
	registry[c.Property] = c
}

func verifDir() string {
	if d := os.Getenv("VERIF_DIR"); d != "" {
		return d
	}
	return "/verif"
}

func repoDir() string {
	if d := os.Getenv("VERIF_REPO"); d != "" {
		return d
	}
	return "/repo"
}

func usage() {
	fmt.Println("usage: vcheck run <property> <quick|thorough> | replay <file> | exec1 <property> <tier> <space> <devs> | list")
	os.Exit(2)
}

func main() {
	if len(os.Args) < 2 {
		usage()
	}
	switch os.Args[1] {
	case "list":
		ids := []string{}
		for id := range registry {
			ids = append(ids, id)
		}
		sort.Strings(ids)
		for _, id := range ids {
			fmt.Println(id)
		}
	case "run":
		if len(os.Args) < 4 {
			usage()
		}
		chk := registry[os.Args[2]]
		if chk == nil {
			fmt.Println("unknown property", os.Args[2])
			os.Exit(2)
		}
		tier := os.Args[3]
		if tier != "quick" && tier != "thorough" {
			usage()
		}
		seed, _ := strconv.ParseInt(os.Getenv("VERIF_SEED"), 10, 64)
		workers := runtime.NumCPU()
		if w, err := strconv.Atoi(os.Getenv("VCHECK_WORKERS")); err == nil && w > 0 {
			workers = w
		}
		dl := 400
		if tier == "thorough" {
			dl = 1200
		}
		if d, err := strconv.Atoi(os.Getenv("VCHECK_DEADLINE_S")); err == nil && d > 0 {
			dl = d
		}
		known, err := mc.LoadKnown(filepath.Join(verifDir(), "known_findings.jsonl"))
		if err != nil {
			fmt.Println("HARNESS-ERROR:", err)
			os.Exit(2)
		}
		r := &mc.Runner{Check: chk, Tier: tier, Seed: seed, VerifDir: verifDir(), Workers: workers, Deadline: time.Now().Add(time.Duration(dl) * time.Second), Known: known}
		os.Exit(r.Run())
	case "worker":
		// worker <prop> <tier> <space> <lvl> <i> <k> <resume>
		chk := registry[os.Args[2]]
		os.Exit(mc.WorkerMain(chk, os.Args[3], os.Args[4:]))
	case "c05child":
		os.Exit(c05ChildMain(os.Args[2]))
	case "exec1":
		chk := registry[os.Args[2]]
		if chk == nil || len(os.Args) < 6 {
			usage()
		}
		os.Exit(mc.Exec1Main(chk, os.Args[3], os.Args[4], os.Args[5], os.Getenv("VCHECK_VERBOSE") != ""))
	case "replay":
		if len(os.Args) < 3 {
			usage()
		}
		b, err := os.ReadFile(os.Args[2])
		if err != nil {
			fmt.Println(err)
			os.Exit(2)
		}
		var obj struct {
			Property, Tier, Space, Devs, Signature string
		}
		if err := json.Unmarshal(b, &obj); err != nil {
			fmt.Println(err)
			os.Exit(2)
		}
		chk := registry[obj.Property]
		if chk == nil {
			fmt.Println("unknown property", obj.Property)
			os.Exit(2)
		}
		fmt.Printf("replaying %s space=%s devs=%s (recorded signature %s)\n", obj.Property, obj.Space, obj.Devs, obj.Signature)
		os.Exit(mc.Exec1Main(chk, obj.Tier, obj.Space, obj.Devs, true))
	default:
		usage()
	}
}
