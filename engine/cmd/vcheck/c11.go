package main

// C11 — ISOBMFF box containment: no read escapes its box; CR3 payloads delivered whole.

import (
	"bufio"
	"bytes"
	"encoding/binary"
	"fmt"
	"io"
	"strings"

	"verif/gen"
	"verif/mc"
	"verif/obs"

	"github.com/evanoberholster/imagemeta"
	"github.com/evanoberholster/imagemeta/exif2"
	"github.com/evanoberholster/imagemeta/isobmff"
	"github.com/evanoberholster/imagemeta/meta"
	"github.com/evanoberholster/imagemeta/preview"
)

type countingSrc struct {
	r       *bytes.Reader
	n       int
	withEOF bool // report io.EOF together with the last bytes (legal for an io.Reader)
}

func (c *countingSrc) Read(p []byte) (int, error) {
	n, err := c.r.Read(p)
	c.n += n
	if c.withEOF && err == nil && n > 0 && c.r.Len() == 0 {
		err = io.EOF
	}
	return n, err
}

// c11LastBox: the tree ends with the preview box whose payload has this size (0 = the ordinary tree), and the
// source reports EOF together with its last bytes
var c11LastBox int

var c11XpSizes = []int{-1, 0, 1, 7, 8, 100, 5000}
var c11PvSizes = []int{-1, 0, 1, 100, 5000, 70000}
var c11ExifBeh = []string{"library DecodeIfd", "read nothing", "io.ReadAll", "1-byte reads to error", "ReadFull(ExifLength-8)"}
var c11XmpBeh = []string{"io.ReadAll", "read nothing", "1-byte reads to error"}
var c11PvBeh = []string{"library RenderPreview", "read nothing", "ReadFull(Size)"}
var c11Deltas = []int64{1, 8, -1, -8, 1 << 16, 1<<31 - 1, 1 << 31, 1<<32 - 1, 1 << 40}

func pattern(n int, seed byte) []byte {
	b := make([]byte, n)
	for i := range b {
		b[i] = byte(i*13) + seed
	}
	return b
}

type c11Tree struct {
	degenerate bool // box sizes honest, but a child's content is too short for its type
	rearranged bool // the CMT boxes are not CMT1..CMT4 once each in that order
	nCMT       int  // number of CMT boxes in the tree
	top        []*gen.Box
	doc        *gen.Doc
	all        []*gen.Box // DFS order
	rec        *gen.Rec
	parts      gen.CR3Parts
}

func c11Build(x *mc.Exec, malformed bool) (*c11Tree, string) {
	rec := richRecord()
	bo := byteOrders[x.All("byte-order", 2)]
	lay := gen.CanonicalLayout()
	// the first directory of each CMT block need not sit right behind its 8-byte header
	lay.FirstIFD = []int{8, 10, 16, 26, 264}[x.Choose("cmt-first-directory-offset", 5)]
	parts := gen.CR3FromRecord(rec, lay, bo)
	if s := c11XpSizes[x.Choose("xpacket-size", len(c11XpSizes))]; s >= 0 {
		parts.XPacket = pattern(s, 'x')
	}
	if s := c11PvSizes[x.Choose("preview-size", len(c11PvSizes))]; s >= 0 {
		parts.Preview = pattern(s, 'p')
	}
	if c11LastBox > 0 {
		parts.Preview = pattern(c11LastBox, 'q')
	}
	extra := x.Choose("skeleton-variant", 5)
	top := gen.CR3(parts, extra)
	// ftyp with an unusual number of compatible brands (well-formed)
	if nb := []int{-1, 0, 1, 8, 9, 12, 40}[x.Choose("ftyp-compatible-brands", 7)]; nb >= 0 {
		brands := []string{"crx ", "isom", "mif1", "iso2", "miaf", "heic", "avif", "msf1"}
		var cb []string
		for i := 0; i < nb; i++ {
			cb = append(cb, brands[i%len(brands)])
		}
		top[0] = gen.Ftyp("crx ", 1, cb...)
	}
	// insert an unknown box somewhere
	moov := top[1]
	metaU := moov.Children[0]
	// a child of the Canon metadata box whose content is too short for its type (sizes stay honest)
	degenerate := false
	if dg := x.Choose("degenerate-child", 13); dg > 0 {
		degenerate = true
		set := func(typ string, n int) {
			for _, c := range metaU.Children {
				if c.Type == typ {
					if n <= len(c.Payload.B) {
						c.Payload = &gen.Doc{B: append([]byte{}, c.Payload.B[:n]...)}
					}
					c.Children = nil
				}
			}
		}
		switch dg {
		case 1:
			set("CNCV", 29)
		case 2:
			set("CNCV", 0)
		case 3:
			set("CTBO", 3)
		case 4:
			set("CTBO", 0)
		case 5:
			set("CTBO", 4)
		case 6:
			set("CMT3", 0)
		case 7:
			set("CMT3", 7)
		case 8:
			set("CCTP", 3)
		case 9:
			set("THMB", 5)
		case 10, 11, 12: // a CMT block whose first-directory offset points into its own 8-byte header (hostile content, honest sizes)
			for _, c := range metaU.Children {
				if c.Type == []string{"CMT1", "CMT2", "CMT4"}[dg-10] && len(c.Payload.B) >= 8 {
					pb := append([]byte{}, c.Payload.B...)
					v := []uint32{4, 0, 7}[dg-10]
					if pb[0] == 'M' {
						binary.BigEndian.PutUint32(pb[4:], v)
					} else {
						binary.LittleEndian.PutUint32(pb[4:], v)
					}
					c.Payload = &gen.Doc{B: pb}
				}
			}
		}
	}
	// the CMT boxes in another arrangement (each box still says what it is: CMTn)
	rearranged := false
	if arr := x.Choose("cmt-arrangement", 6); arr > 0 {
		rearranged = true // the merged record depends on the order the directories are met in
		idx := map[string]int{}
		for i, c := range metaU.Children {
			idx[c.Type] = i
		}
		i1, i2, i3, i4 := idx["CMT1"], idx["CMT2"], idx["CMT3"], idx["CMT4"]
		ch := metaU.Children
		c1, c2, c3, c4 := ch[i1], ch[i2], ch[i3], ch[i4]
		switch arr {
		case 1: // no maker-note box
			metaU.Children = append(append([]*gen.Box{}, ch[:i3]...), ch[i3+1:]...)
		case 2:
			ch[i1], ch[i2], ch[i3], ch[i4] = c1, c4, c2, c3
		case 3:
			ch[i1], ch[i2] = c2, c1
		case 4: // a second CMT1 after CMT4
			dup := &gen.Box{Type: "CMT1", Payload: c1.Payload}
			metaU.Children = append(append(append([]*gen.Box{}, ch[:i4+1]...), dup), ch[i4+1:]...)
		case 5: // only the GPS box
			metaU.Children = append(append(append([]*gen.Box{}, ch[:i1]...), c4), ch[i4+1:]...)
		}
	}
	ins := x.Choose("insert-unknown-box", 1+7*3)
	if ins > 0 {
		where, size := (ins-1)/3, []int{0, 1, 100}[(ins-1)%3]
		ub := &gen.Box{Type: "zzzz", Payload: &gen.Doc{B: pattern(size, 'u')}}
		kind := x.All("unknown-box-kind", 6)
		if kind >= 4 && where != 3 && where != 4 {
			kind = 0 // the two kinds below are placed inside moov only (a failing top-level uuid box is reported by an error)
		}
		switch kind {
		case 4: // a uuid box too short to hold its 16-byte usertype: its handler fails with the payload unread
			ub = &gen.Box{Type: "uuid", Payload: &gen.Doc{B: pattern(8, 'y')}}
		case 5: // Canon's preview usertype holding a free box where PRVW belongs: the preview handler fails
			ub = &gen.Box{Type: "uuid", UUID: gen.UUIDCr3Preview, Payload: &gen.Doc{B: []byte{0, 0, 0, 0, 0, 0, 0, 1}},
				Children: []*gen.Box{{Type: "free", Payload: &gen.Doc{B: []byte("padding of a free box that is no preview")}}}}
		case 1: // a uuid box whose usertype is none of the three Canon ones
			ub = &gen.Box{Type: "uuid", UUID: gen.UUIDOther, Payload: &gen.Doc{B: pattern(size, 'v')}}
		case 2:
			ub = &gen.Box{Type: "uuid", UUID: gen.UUIDOther, Large: true, Payload: &gen.Doc{B: pattern(size, 'w')}}
		case 3:
			ub = &gen.Box{Type: "skip", Payload: &gen.Doc{B: pattern(size, 's')}}
		}
		switch where {
		case 0:
			top = append(top[:1], append([]*gen.Box{ub}, top[1:]...)...) // before moov
		case 1:
			top = append(top[:2], append([]*gen.Box{ub}, top[2:]...)...) // after moov
		case 2:
			top = append(top, ub) // last
		case 3:
			moov.Children = append([]*gen.Box{ub}, moov.Children...)
		case 4:
			moov.Children = append(moov.Children, ub)
		case 5:
			metaU.Children = append([]*gen.Box{ub}, metaU.Children...)
		case 6:
			k := len(metaU.Children) / 2
			metaU.Children = append(metaU.Children[:k], append([]*gen.Box{ub}, metaU.Children[k:]...)...)
		}
	}
	switch x.Choose("trailing-box", 3) {
	case 1:
		top = append(top, &gen.Box{Type: "free"})
	case 2:
		top = append(top, &gen.Box{Type: "free", Payload: &gen.Doc{B: make([]byte, 8)}})
	}
	if c11LastBox > 0 {
		for i, b := range top {
			if b.Type == "uuid" && bytes.Equal(b.UUID, gen.UUIDCr3Preview) {
				top = top[:i+1]
				break
			}
		}
	}
	t := &c11Tree{top: top, rec: rec, parts: parts, degenerate: degenerate, rearranged: rearranged}
	gen.Walk(top, func(b *gen.Box, d int) {
		t.all = append(t.all, b)
		if strings.HasPrefix(b.Type, "CMT") {
			t.nCMT++
		}
	})
	if lb := x.Choose("64-bit-size-box", len(t.all)+1); lb > 0 {
		t.all[lb-1].Large = true
	}
	what := ""
	if malformed {
		ob := x.Choose("overstated-box", len(t.all)+1)
		if ob > 0 {
			b := t.all[ob-1]
			b.SizeDelta = c11Deltas[x.All("overstatement", len(c11Deltas))]
			what = fmt.Sprintf("%s size %+d", b.Type, b.SizeDelta)
			// cooperating second site: the enclosing box(es) overstate as well, so that the
			// nearest ancestor still "has room" and only an outer one does not
			par := map[*gen.Box]*gen.Box{}
			gen.Walk(top, func(p *gen.Box, d int) {
				for _, c := range p.Children {
					par[c] = p
				}
			})
			if p := par[b]; p != nil && par[p] != nil { // the top-level box itself stays honest
				switch x.All("co-overstated-ancestors", 4) {
				case 1:
					p.SizeDelta = b.SizeDelta
					what += fmt.Sprintf(", parent %s %+d", p.Type, p.SizeDelta)
				case 2:
					p.SizeDelta = b.SizeDelta + 64
					what += fmt.Sprintf(", parent %s %+d", p.Type, p.SizeDelta)
				case 3:
					p.SizeDelta = b.SizeDelta
					what += fmt.Sprintf(", parent %s %+d", p.Type, p.SizeDelta)
					if g := par[p]; par[g] != nil {
						g.SizeDelta = b.SizeDelta
						what += fmt.Sprintf(", grandparent %s %+d", g.Type, g.SizeDelta)
					}
				}
			}
		}
	}
	t.doc = gen.EncodeBoxes(top)
	return t, what
}

func (t *c11Tree) find(typ string, uuid []byte) *gen.Box {
	for _, b := range t.all {
		if b.Type == typ && (uuid == nil || bytes.Equal(b.UUID, uuid)) {
			return b
		}
	}
	return nil
}

func c11Harness(malformed bool) mc.Harness { return c11HarnessV(malformed, false) }

func c11HarnessV(malformed, lastBoxEOF bool) mc.Harness {
	return func(x *mc.Exec) {
		pristine()
		c11LastBox = 0
		if lastBoxEOF {
			c11LastBox = []int{100, 4095, 4096, 4097, 5000, 8192, 20000, 70000}[x.All("last-box-preview-size", 8)]
		}
		t, what := c11Build(x, malformed)
		c11LastBox = 0
		eb := x.All("exif-callback", len(c11ExifBeh))
		xb := x.All("xmp-callback", len(c11XmpBeh))
		pb := x.All("preview-callback", len(c11PvBeh))
		data := t.doc.B
		x.InputID = hashBytes(data) ^ uint64(eb*64+xb*8+pb)
		x.Trivial = malformed && what == ""
		x.Note("malformation", what)
		x.Note("callbacks", c11ExifBeh[eb]+" / "+c11XmpBeh[xb]+" / "+c11PvBeh[pb])
		wellFormed := what == "" && !t.degenerate
		sigs := map[string]bool{}
		fail := func(kind, msg string) {
			if sigs[kind] {
				return
			}
			sigs[kind] = true
			x.Fail("containment|isobmff|"+kind, fmt.Sprintf("%s [%s; callbacks %s/%s/%s; deviations %s]", msg, what, c11ExifBeh[eb], c11XmpBeh[xb], c11PvBeh[pb], x.DevLabels()),
				map[string]string{"input_hex": hexInput(data), "deviations": x.DevLabels()})
		}
		src := &countingSrc{r: bytes.NewReader(data), withEOF: lastBoxEOF}
		br := bufio.NewReaderSize(src, 4096)
		pos := func() int { return src.n - br.Buffered() }
		// which top-level box is being processed, and limits for callbacks
		curTop := -1
		parent := map[*gen.Box]*gen.Box{}
		gen.Walk(t.top, func(b *gen.Box, d int) {
			for _, c := range b.Children {
				parent[c] = b
			}
		})
		limit := func(b *gen.Box) int {
			// a box's handler may not consume beyond the box's declared end nor beyond any ancestor's declared end
			end := int(^uint(0) >> 1)
			for a := b; a != nil; a = parent[a] {
				de := int64(a.End) + a.SizeDelta
				if de < int64(end) {
					end = int(de)
				}
			}
			return end
		}
		_ = curTop
		cmts := []*gen.Box{t.find("CMT1", nil), t.find("CMT2", nil), t.find("CMT3", nil), t.find("CMT4", nil)}
		xpBox := t.find("uuid", gen.UUIDCr3XPacket)
		pvBox := t.find("PRVW", nil)
		ir := exif2.NewIfdReader(exif2.Logger)
		defer ir.Close()
		pr := preview.NewPreviewReader(preview.Logger)
		nExif := 0
		readAllBytes := func(r io.Reader) ([]byte, error) {
			var b []byte
			tmp := make([]byte, 1)
			for {
				n, err := r.Read(tmp)
				b = append(b, tmp[:n]...)
				if err != nil {
					return b, err
				}
				if len(b) > len(data)+16 {
					return b, fmt.Errorf("reader yields more than the whole file")
				}
			}
		}
		checkPos := func(b *gen.Box, when string) {
			if b == nil {
				return
			}
			if p := pos(); p > limit(b) {
				fail("read-past-box-end", fmt.Sprintf("%s of the %s callback the stream stands at %d, beyond the end %d of its box", when, b.Type, p, limit(b)))
			}
		}
		bmr := isobmff.NewReader(br)
		defer bmr.Close()
		bmr.ExifReader = func(r io.Reader, h meta.ExifHeader) error {
			// the callback belongs to the CMT box inside which the stream stands
			var b *gen.Box
			idx := nExif
			p0 := pos()
			for j, c := range cmts {
				// at entry the stream stands behind the box header: the payload range decides (an empty box
				// ends where the next one starts)
				if c != nil && p0 >= c.PayloadStart && p0 <= c.End {
					b, idx = c, j
				}
			}
			for j, c := range cmts {
				// ... unless the stream stands exactly behind the 8-byte TIFF header of a box: then it is that box's
				// callback, whatever size the box claims (an empty CMT3 that claims to extend over CMT4 is handed
				// CMT4's bytes as its own payload, up to the end of the enclosing box)
				if c != nil && p0 == c.PayloadStart+8 {
					b, idx = c, j
					break
				}
			}
			if b == nil && nExif < 4 && !t.rearranged {
				b = cmts[nExif]
			}
			nExif++
			checkPos(b, "at entry")
			if wellFormed && b != nil {
				payload := b.Payload.B
				wantIfd := []uint8{1, 3, 6, 4}[idx] // IFD0, ExifIFD, MknoteIFD, GPSIFD
				bo := binary.ByteOrder(binary.LittleEndian)
				wbo := 1
				if payload[0] == 'M' {
					bo, wbo = binary.BigEndian, 2
				}
				if int(h.FirstIfd) != int(wantIfd) || int(h.ByteOrder) != wbo || h.FirstIfdOffset != bo.Uint32(payload[4:]) || int(h.ExifLength) != len(payload) {
					fail("cmt-header", fmt.Sprintf("CMT%d callback got header {%v}, want FirstIfd=%d ByteOrder=%d FirstIfdOffset=%d ExifLength=%d", idx+1, h, wantIfd, wbo, bo.Uint32(payload[4:]), len(payload)))
				}
				want := payload[8:]
				switch eb {
				case 0:
					if err := ir.DecodeIfd(r, h); err != nil {
						fail("cmt-library-reader", fmt.Sprintf("library Exif reader failed on CMT%d: %v", idx+1, err))
					}
				case 2:
					got, err := io.ReadAll(r)
					if err != nil || !bytes.Equal(got, want) {
						fail("cmt-payload-ReadAll", fmt.Sprintf("io.ReadAll on the CMT%d reader gave %d bytes, err=%v; the payload after the TIFF header has %d bytes", idx+1, len(got), err, len(want)))
					}
				case 3:
					got, _ := readAllBytes(r)
					if !bytes.Equal(got, want) {
						fail("cmt-payload-1-byte", fmt.Sprintf("1-byte reads on the CMT%d reader gave %d bytes, the payload after the TIFF header has %d", idx+1, len(got), len(want)))
					}
				case 4:
					got := make([]byte, len(want))
					if _, err := io.ReadFull(r, got); err != nil || !bytes.Equal(got, want) {
						fail("cmt-payload-ReadFull", fmt.Sprintf("ReadFull of the CMT%d payload: err=%v", idx+1, err))
					}
				}
			} else {
				switch eb {
				case 0:
					ir.DecodeIfd(r, h)
				case 2:
					io.ReadAll(r)
				case 3:
					readAllBytes(r)
				case 4:
					if h.ExifLength >= 8 && h.ExifLength < 1<<20 {
						io.ReadFull(r, make([]byte, h.ExifLength-8))
					}
				}
			}
			checkPos(b, "at exit")
			return nil
		}
		bmr.XMPReader = func(r io.Reader) error {
			checkPos(xpBox, "at entry")
			var got []byte
			var err error
			switch xb {
			case 0:
				got, err = io.ReadAll(r)
			case 2:
				got, err = readAllBytes(r)
				if err == io.EOF {
					err = nil
				}
			}
			if wellFormed && xb != 1 && xpBox != nil {
				if !bytes.Equal(got, t.parts.XPacket) || (xb == 0 && err != nil) {
					fail("xpacket-payload", fmt.Sprintf("%s on the xpacket reader gave %d bytes, err=%v; the packet has %d bytes", c11XmpBeh[xb], len(got), err, len(t.parts.XPacket)))
				}
			}
			checkPos(xpBox, "at exit")
			return nil
		}
		bmr.PreviewImageReader = func(r io.Reader, h meta.PreviewHeader) error {
			checkPos(pvBox, "at entry")
			if wellFormed && int(h.Size) != len(t.parts.Preview) {
				fail("prvw-header", fmt.Sprintf("preview header size %d, want %d", h.Size, len(t.parts.Preview)))
			}
			switch pb {
			case 0:
				if err := pr.RenderPreview(r, h); err != nil && wellFormed {
					fail("prvw-library-reader", fmt.Sprintf("library preview reader failed: %v", err))
				} else if wellFormed && !bytes.Equal(pr.PreviewImage, t.parts.Preview) {
					fail("prvw-payload", fmt.Sprintf("library preview reader got %d bytes, the preview has %d", len(pr.PreviewImage), len(t.parts.Preview)))
				}
			case 2:
				if h.Size < 1<<20 {
					got := make([]byte, h.Size)
					_, err := io.ReadFull(r, got)
					if wellFormed && (err != nil || !bytes.Equal(got, t.parts.Preview)) {
						fail("prvw-payload", fmt.Sprintf("ReadFull(Size) on the preview reader: err=%v", err))
					}
				}
			}
			checkPos(pvBox, "at exit")
			return nil
		}
		// drive: ReadFTYP, then one ReadMetadata per remaining top-level box plus two more
		curTop = 0
		var err error
		pi := mc.Guard(func() { err = bmr.ReadFTYP() })
		if pi != nil {
			failPanic(x, pi, "isobmff.Reader.ReadFTYP", data, nil)
			return
		}
		after := func(k int, err error, call string) bool {
			p := pos()
			b := t.top[k]
			if wellFormed {
				if err != nil {
					fail("error-on-well-formed", fmt.Sprintf("%s on top-level box %d (%s, %d..%d) returned %v", call, k, b.Type, b.Start, b.End, err))
					return false
				}
				if p != b.End {
					fail("top-level-position", fmt.Sprintf("after %s on top-level box %d (%s, %d..%d) the reader stands at %d, not at the next box", call, k, b.Type, b.Start, b.End, p))
					return false
				}
				return true
			}
			if t.degenerate && what == "" && err == nil && p != b.End {
				fail("top-level-position", fmt.Sprintf("after %s on top-level box %d (%s, %d..%d; one child has degenerate content, all sizes honest) the reader stands at %d although no error was returned", call, k, b.Type, b.Start, b.End, p))
			}
			if p > b.End && b.SizeDelta == 0 {
				fail("read-past-top-level-box", fmt.Sprintf("after %s on top-level box %d (%s, %d..%d) the reader stands at %d", call, k, b.Type, b.Start, b.End, p))
			}
			return err == nil && p == b.End
		}
		if !after(0, err, "ReadFTYP") {
			x.Outcome = "stopped at ftyp"
			return
		}
		k := 1
		for ; k < len(t.top); k++ {
			curTop = k
			pi := mc.Guard(func() { err = bmr.ReadMetadata() })
			if pi != nil {
				failPanic(x, pi, "isobmff.Reader.ReadMetadata", data, map[string]string{"malformation": what})
				return
			}
			if !after(k, err, "ReadMetadata") {
				break
			}
		}
		if k == len(t.top) {
			// at end of file: two more calls must fail without moving
			for j := 0; j < 2; j++ {
				p0 := pos()
				pi := mc.Guard(func() { err = bmr.ReadMetadata() })
				if pi != nil {
					failPanic(x, pi, "isobmff.Reader.ReadMetadata", data, nil)
					return
				}
				if err == nil {
					fail("nil-at-end-of-file", fmt.Sprintf("ReadMetadata at end of file (position %d of %d) returned nil", p0, len(data)))
				}
			}
			if wellFormed {
				if nExif != t.nCMT {
					fail("cmt-callbacks", fmt.Sprintf("%d Exif callbacks, want %d (one per CMT box)", nExif, t.nCMT))
				}
				if eb == 0 && !t.rearranged {
					// (d) the decoded record equals the record put in
					gotO := obs.Exif(ir.Exif, false)
					wantO := obs.ExpectExif(t.rec, "image/x-canon-cr3")
					if diff := obs.Diff(gotO, wantO, nil); len(diff) > 0 {
						fail("decoded-record", "record decoded through the CMT callbacks differs from the record put in: "+obs.Explain(gotO, wantO, diff))
					}
				}
			}
		}
		x.Outcome = fmt.Sprintf("top=%d exif=%d", k, nExif)
		// PreviewCR3 / DecodeCR3 entry points on the same tree
		if wellFormed && eb == 0 && xb == 0 && pb == 0 {
			// PreviewCR3 reads ftyp and exactly three more top-level boxes
			pvIdx := -1
			for i, b := range t.top {
				if b.Type == "uuid" && bytes.Equal(b.UUID, gen.UUIDCr3Preview) {
					pvIdx = i
				}
			}
			pristine()
			var pv []byte
			pi := mc.Guard(func() { pv, err = imagemeta.PreviewCR3(bytes.NewReader(data)) })
			if pi != nil {
				failPanic(x, pi, "imagemeta.PreviewCR3", data, nil)
			} else if pvIdx == 3 && (err != nil || !bytes.Equal(pv, t.parts.Preview)) {
				fail("PreviewCR3", fmt.Sprintf("PreviewCR3 returned %d bytes, err=%v; the preview has %d bytes", len(pv), err, len(t.parts.Preview)))
			}
		}
	}
}

func init() {
	register(&mc.Check{Property: "C11", Setup: defaultLogger,
		Spaces: func(tier string) []mc.Space {
			b := 1
			if tier == "thorough" {
				b = 2
			}
			return []mc.Space{
				{Name: "well-formed-trees", H: c11Harness(false), Bound: b, Isolate: true,
					Rule: "canonical CR3 box tree (ftyp, moov{uuid-meta{CNCV,CCTP{CCDT,CCDT},CTBO,free,CMT1-4,THMB},mvhd,trak{tkhd,mdia{mdhd,hdlr}}}, uuid-xpacket, uuid-preview{PRVW}, mdat); deviations: xpacket/preview size menus, skeleton variants (free / unknown top-level box, unknown children, 64-bit uuid sizes), an unknown box (zzzz, uuid with a foreign usertype in 32- and 64-bit form, skip; inside moov also a uuid too short for its usertype and a preview uuid without PRVW) inserted at 7 places x 3 sizes, a trailing 8/16-byte box, any one box in 64-bit size form, ftyp with 0/1/8/9/12/40 compatible brands, a metadata child with content too short for its type (CNCV, CTBO, CMT3, CCTP, THMB; sizes honest) or a CMT block whose first-directory offset is 0, 4 or 7, the CMT boxes in 5 other arrangements (one missing, reordered, duplicated, only CMT4); x both byte orders x 5 Exif / 3 XMP / 3 preview callback behaviours"},
				{Name: "preview-as-last-box-from-a-source-that-reports-eof-with-its-last-bytes", H: c11HarnessV(false, true), Bound: 0, Isolate: true,
					Rule: "the tree ending with the preview box (payload 100..70000 bytes, 8 sizes) read from a source that returns io.EOF together with its last bytes x both byte orders x all callback behaviours (ReadFull(Size) reads with one large buffer): the callbacks still see the whole payload"},
				{Name: "overstated-children", H: c11Harness(true), Bound: b, Isolate: true,
					Rule: "the same trees with any one box declaring a size off by {+1,+8,-1,-8,+64Ki,+2^31-1,+2^31,+2^32-1,+2^40}, optionally together with its parent (same amount or 64 more) or parent and grandparent (cooperating sites; the top-level box stays honest): no callback and no call may leave the stream beyond the end of the box being handled or of the enclosing top-level box; trivial = no overstatement"},
			}
		},
		Assumptions: []string{
			"logical stream position = bytes read from the source minus bufio.Buffered(); observation points are callback entry/exit and the return of every top-level call (consumption is monotone, so an over-read is never undone)",
			"expected payloads come from the generator's own box tree",
		},
	})
}
