package main

import (
	"bytes"
	"encoding/binary"
	"fmt"
	"os"
	"path/filepath"
	"sort"

	"verif/gen"
)

// seed is one well-formed input of the corpus S.
type seed struct {
	name string
	kind string // tiff jpeg png cr3 heif avif xmp other
	doc  *gen.Doc
	gen  bool // generated (true) or repository sample (false)
}

func richRecord() *gen.Rec { return gen.ChooseRecord(gen.Fixed{}, true) }

func richLayout() gen.Layout {
	l := gen.CanonicalLayout()
	l.Foreign = 2
	l.NextIFD = 1
	l.Trailing = 64
	return l
}

func richXMP() []byte {
	rec := gen.ChooseXRec(gen.Fixed{})
	st := gen.XStyle{Junk: 1}
	return rec.Serialize(st)
}

// avifBoxes builds an item-based AVIF/HEIF file: ftyp, meta{hdlr,pitm,iinf,iref,iprp,idat,iloc}, mdat.
func avifBoxes(tiff *gen.Doc, major string) []*gen.Box { return avifBoxesVariant(tiff, major, 0) }

// avifBoxesVariant: 1 = a second, unrelated mdat box in front of the one that holds the items; 2 = 600 further entries
// in the item list (an iinf box of 12 KB); 3 = the same with an entry of declared size 0 in the middle; 4 = one entry
// of 5000 bytes (a long content type) followed by the others
func avifBoxesVariant(tiff *gen.Doc, major string, variant int) []*gen.Box {
	be := binary.BigEndian
	raw := func(b []byte) *gen.Doc { return &gen.Doc{B: b} }
	infe := func(id uint16, typ string, extra string) *gen.Box {
		d := &gen.Doc{}
		d.U16(be, id, "infe.item-id", "val16")
		d.U16(be, 0, "", "")
		d.Str(typ)
		d.Str("\x00")
		d.Str(extra)
		return &gen.Box{Type: "infe", Full: true, Version: 2, Payload: d}
	}
	iinfP := &gen.Doc{}
	iinfP.U16(be, 3, "iinf.entry-count", "val16")
	iinf := &gen.Box{Type: "iinf", Full: true, Payload: iinfP, Children: []*gen.Box{
		infe(1, "av01", ""), infe(2, "Exif", ""), infe(3, "mime", "application/rdf+xml\x00"),
	}}
	switch variant {
	case 2, 3:
		for i := 0; i < 600; i++ {
			e := infe(uint16(10+i), "mime", "x\x00")
			if variant == 3 && i == 300 {
				e.SizeDelta = -int64(4 + 4 + 4 + len(e.Payload.B)) // declared size 0
			}
			iinf.Children = append(iinf.Children, e)
		}
		iinfP.B[0], iinfP.B[1] = 0x02, 0x5b // 603 entries
	case 4:
		big := infe(9, "mime", string(pattern(5000, 'm'))+"\x00")
		iinf.Children = append([]*gen.Box{big}, iinf.Children...)
		iinfP.B[1] = 4
	}
	hdlr := &gen.Box{Type: "hdlr", Full: true, Payload: raw([]byte("\x00\x00\x00\x00pict\x00\x00\x00\x00\x00\x00\x00\x00\x00\x00\x00\x00\x00"))}
	pitm := &gen.Box{Type: "pitm", Full: true, Payload: raw([]byte{0, 1})}
	iref := &gen.Box{Type: "iref", Full: true, Children: []*gen.Box{{Type: "cdsc", Payload: raw([]byte{0, 2, 0, 1, 0, 1})}}}
	ispe := &gen.Box{Type: "ispe", Full: true, Payload: raw([]byte{0, 0, 0, 64, 0, 0, 0, 64})}
	ipmaP := &gen.Doc{}
	ipmaP.U32(be, 1, "ipma.entry-count", "count32")
	ipmaP.Bytes(0, 1, 1, 0x81)
	ipma := &gen.Box{Type: "ipma", Full: true, Payload: ipmaP}
	iprp := &gen.Box{Type: "iprp", Children: []*gen.Box{{Type: "ipco", Children: []*gen.Box{ispe}}, ipma}}
	idat := &gen.Box{Type: "idat", Payload: raw([]byte{0, 0, 0, 0, 0, 64, 0, 64})}
	// mdat payload: image bytes, then the Exif item (4-byte header offset + "Exif\0\0" + TIFF), then xml
	md := &gen.Doc{}
	md.B = append(md.B, make([]byte, 48)...)
	exifItemOff := len(md.B)
	md.U32(be, 6, "", "")
	md.Str(gen.ExifPrefix)
	md.Append(tiff, "avif")
	exifItemLen := len(md.B) - exifItemOff
	xmlOff := len(md.B)
	md.Str("<x:xmpmeta xmlns:x=\"adobe:ns:meta/\"/>")
	xmlLen := len(md.B) - xmlOff
	mdat := &gen.Box{Type: "mdat", Payload: md}
	// iloc: offsets are absolute; patched after a first layout pass
	ilocP := &gen.Doc{}
	ilocP.U8(0x44, "iloc.offset-length-size", "nib8")
	ilocP.U8(0x00, "iloc.base-index-size", "nib8")
	ilocP.U16(be, 3, "iloc.item-count", "val16")
	type it struct {
		id       uint16
		off, len int
	}
	items := []it{{1, 0, 48}, {2, exifItemOff, exifItemLen}, {3, xmlOff, xmlLen}}
	var patch []int
	for _, i := range items {
		ilocP.U16(be, i.id, "", "")
		ilocP.U16(be, 0, "", "")
		ilocP.U16(be, 1, fmt.Sprintf("iloc.item%d.extent-count", i.id), "val16")
		patch = append(patch, len(ilocP.B))
		ilocP.U32(be, uint32(i.off), fmt.Sprintf("iloc.item%d.offset", i.id), "off32")
		ilocP.U32(be, uint32(i.len), fmt.Sprintf("iloc.item%d.length", i.id), "len32")
	}
	iloc := &gen.Box{Type: "iloc", Full: true, Payload: ilocP}
	meta := &gen.Box{Type: "meta", Full: true, Children: []*gen.Box{hdlr, pitm, iinf, iref, iprp, idat, iloc}}
	compat := []string{"mif1", "miaf"}
	if major == "avif" {
		compat = []string{"avif", "mif1", "miaf"}
	} else {
		compat = []string{"mif1", "heic"}
	}
	top := []*gen.Box{gen.Ftyp(major, 0, compat...), meta, mdat}
	if variant == 1 {
		top = []*gen.Box{top[0], meta, {Type: "mdat", Payload: raw(make([]byte, 16))}, mdat}
	}
	// first pass to learn where mdat's payload starts
	gen.EncodeBoxes(top)
	base := mdat.PayloadStart
	for k, i := range items {
		be.PutUint32(ilocP.B[patch[k]:], uint32(base+i.off))
	}
	return top
}

// manyPendingTags is a little-endian TIFF whose IFD0 holds n private ASCII tags with out-of-line
// values, a Make and an Exif pointer.
func manyPendingTags(n int) *gen.Doc {
	le := binary.LittleEndian
	d := &gen.Doc{}
	d.Str("II*\x00")
	d.U32(le, 8, "", "")
	d.U16(le, uint16(n+1), "ifd0.entry-count", "count16")
	valOff := 8 + 2 + (n+1)*12 + 4
	d.U16(le, 0x010f, "", "")
	d.U16(le, 2, "", "")
	d.U32(le, 8, "", "")
	d.U32(le, uint32(valOff), "", "")
	for i := 0; i < n; i++ {
		d.U16(le, uint16(0xC100+i), "", "")
		d.U16(le, 2, "", "")
		d.U32(le, 8, "", "")
		d.U32(le, uint32(valOff+8*(i+1)), "", "")
	}
	d.U32(le, 0, "", "")
	d.Str("VerifCm\x00")
	for i := 0; i < n; i++ {
		d.Str("abcdefg\x00")
	}
	d.B = append(d.B, make([]byte, 64)...)
	return d
}

// overlappingStrings is a TIFF block whose n string fields (count cnt each) have value
// offsets that overlap (each starts step bytes after the previous one): legal TIFF,
// the same file bytes are named by many fields.
func overlappingStrings(n, cnt, step int, bo binary.ByteOrder) *gen.Doc {
	d := &gen.Doc{}
	if bo == binary.LittleEndian {
		d.Str("II*\x00")
	} else {
		d.Str("MM\x00*")
	}
	d.U32(bo, 8, "", "")
	d.U16(bo, uint16(n), "", "")
	valOff := 8 + 2 + n*12 + 4
	ids := []uint16{0x010e, 0x0131, 0x013b, 0x8298, 0x0110}
	for i := 0; i < n; i++ {
		d.U16(bo, ids[i%len(ids)], "", "")
		d.U16(bo, 2, "", "")
		d.U32(bo, uint32(cnt), "", "")
		d.U32(bo, uint32(valOff+i*step), "", "")
	}
	d.U32(bo, 0, "", "")
	d.B = append(d.B, pattern(cnt+n*step, 'o')...)
	d.B = append(d.B, 0)
	return d
}

// amplificationSeeds name the same file bytes many times over: the memory a decode
// allocates must follow the file's length, not the number of names.
var amplificationCache []seed

func amplificationSeeds() []seed {
	if amplificationCache != nil {
		return amplificationCache
	}
	var out []seed
	add := func(name, kind string, d *gen.Doc) {
		out = append(out, seed{name: name, kind: kind, doc: d, gen: true})
	}
	II, MM := binary.LittleEndian, binary.BigEndian
	for _, c := range []struct{ n, cnt, step int }{{83, 4096, 1}, {83, 1000, 0}, {40, 4000, 100}, {83, 4096, 64}} {
		add(fmt.Sprintf("tiff-%d-strings-of-%d-overlapping-by-step-%d", c.n, c.cnt, c.step), "tiff", overlappingStrings(c.n, c.cnt, c.step, II))
		for _, segsN := range []int{24, 64} {
			var segs []gen.Seg
			for i := 0; i < segsN; i++ {
				bo := binary.ByteOrder(II)
				if i%2 == 1 {
					bo = MM
				}
				segs = append(segs, gen.SegExif(overlappingStrings(c.n, c.cnt, c.step, bo)))
			}
			j, _ := gen.BuildJPEG(segs, true)
			add(fmt.Sprintf("jpeg-%d-exif-segments-each-%d-strings-of-%d-overlapping-by-step-%d", segsN, c.n, c.cnt, c.step), "jpeg", j)
		}
	}
	amplificationCache = out
	return out
}

// repetitionSeeds repeat the smallest legal unit of a container structure thousands of times: work and memory must
// follow the length of the file, not the number of units (a fixed cost per unit that is large against the unit's size
// breaks a bound that no single size or count field can break).
var repetitionCache []seed

func repetitionSeeds() []seed {
	if repetitionCache != nil {
		return repetitionCache
	}
	var out []seed
	add := func(name, kind string, b []byte) {
		out = append(out, seed{name: name, kind: kind, doc: &gen.Doc{B: b}, gen: true})
	}
	II := binary.LittleEndian
	// the smallest Exif blocks: one out-of-line string; one embedded value and a pointer to a directory that is not there
	tiny := func(variant int) []byte {
		d := &gen.Doc{}
		d.Str("II*\x00")
		d.U32(II, 8, "", "")
		switch variant {
		case 0:
			d.U16(II, 1, "", "")
			d.U16(II, 0x0131, "", "")
			d.U16(II, 2, "", "")
			d.U32(II, 5, "", "")
			d.U32(II, 26, "", "")
			d.U32(II, 0, "", "")
			d.Str("abcd\x00")
		case 1:
			d.U16(II, 2, "", "")
			d.U16(II, 0x0112, "", "")
			d.U16(II, 3, "", "")
			d.U32(II, 1, "", "")
			d.U32(II, 6, "", "")
			d.U16(II, 0x8769, "", "")
			d.U16(II, 4, "", "")
			d.U32(II, 1, "", "")
			d.U32(II, 38, "", "")
			d.U32(II, 0, "", "")
		}
		return d.B
	}
	minBlock := gen.EncodeTIFF(gen.MinimalRecord(), gen.CanonicalLayout(), II, gen.AllDirs)
	for vi, blk := range [][]byte{tiny(0), tiny(1), minBlock.B} {
		var segs []gen.Seg
		for i := 0; i < 3000; i++ {
			segs = append(segs, gen.SegExif(&gen.Doc{B: blk}))
		}
		j, _ := gen.BuildJPEG(segs, true)
		add(fmt.Sprintf("jpeg-3000-exif-segments-of-%d-bytes(%d)", len(blk), vi), "jpeg", j.B)
	}
	{
		var segs []gen.Seg
		for i := 0; i < 5000; i++ {
			segs = append(segs, gen.SegXMP([]byte("<x:xmpmeta/>")))
		}
		j, _ := gen.BuildJPEG(segs, true)
		add("jpeg-5000-minimal-xmp-segments", "jpeg", j.B)
		for i := 0; i < 15000; i++ {
			segs = append(segs, gen.SegXMP([]byte("<x:xmpmeta/>")))
		}
		j, _ = gen.BuildJPEG(segs, true)
		add("jpeg-20000-minimal-xmp-segments", "jpeg", j.B)
		segs = nil
		for i := 0; i < 20000; i++ {
			segs = append(segs, gen.Seg{Marker: 0xFE, Payload: nil, Kind: "com"})
		}
		j, _ = gen.BuildJPEG(append(segs, gen.SegExif(minBlock)), true)
		add("jpeg-20000-empty-comments-then-exif", "jpeg", j.B)
	}
	{ // CR3 whose metadata box holds thousands of CMT boxes
		for _, blk := range [][]byte{tiny(0), minBlock.B} {
			p := gen.CR3FromRecord(gen.MinimalRecord(), gen.CanonicalLayout(), II)
			top := gen.CR3(p, 0)
			metaU := top[1].Children[0]
			for i := 0; i < 3000; i++ {
				metaU.Children = append(metaU.Children, &gen.Box{Type: fmt.Sprintf("CMT%d", 1+i%4), Payload: &gen.Doc{B: blk}})
			}
			add(fmt.Sprintf("cr3-3000-cmt-boxes-of-%d-bytes", len(blk)), "cr3", gen.EncodeBoxes(top).B)
		}
	}
	{ // CR3 whose moov holds hundreds of small preview boxes (each one is handed to the preview reader)
		p := gen.CR3FromRecord(gen.MinimalRecord(), gen.CanonicalLayout(), II)
		top := gen.CR3(p, 0)
		moov := top[1]
		for i := 0; i < 400; i++ {
			moov.Children = append(moov.Children, &gen.Box{Type: "uuid", UUID: gen.UUIDCr3Preview, Payload: &gen.Doc{B: []byte{0, 0, 0, 0, 0, 0, 0, 1}},
				Children: []*gen.Box{gen.PRVWBox([]byte("\xff\xd8tiny\xff\xd9"))}})
		}
		add("cr3-400-small-preview-boxes-inside-moov", "cr3", gen.EncodeBoxes(top).B)
		// ... and tens of thousands of preview boxes whose image is empty or one byte: the unit is 56 bytes
		for _, img := range []string{"", "x"} {
			top = gen.CR3(p, 0)
			moov = top[1]
			for i := 0; i < 20000; i++ {
				moov.Children = append(moov.Children, &gen.Box{Type: "uuid", UUID: gen.UUIDCr3Preview, Payload: &gen.Doc{B: []byte{0, 0, 0, 0, 0, 0, 0, 1}},
					Children: []*gen.Box{gen.PRVWBox([]byte(img))}})
			}
			add(fmt.Sprintf("cr3-20000-preview-boxes-of-%d-image-bytes", len(img)), "cr3", gen.EncodeBoxes(top).B)
		}
	}
	{ // a TIFF whose root directory points at 84 Exif directories of 41 time-zone offset tags each, all offsets different
		// (the unit is one 12-byte entry and its 7-byte value; whatever is kept per distinct value must stay small)
		le := binary.LittleEndian
		const nDirs, perDir = 84, 41
		b := []byte{'I', 'I', 42, 0, 8, 0, 0, 0}
		put16 := func(v int) { b = le.AppendUint16(b, uint16(v)) }
		put32 := func(v int) { b = le.AppendUint32(b, uint32(v)) }
		dirSize := 2 + perDir*12 + 4 + perDir*7
		first := 8 + 2 + nDirs*12 + 4
		put16(nDirs)
		for i := 0; i < nDirs; i++ {
			put16(0x8769)
			put16(4)
			put32(1)
			put32(first + i*dirSize)
		}
		put32(0)
		k := 0
		for i := 0; i < nDirs; i++ {
			start := len(b)
			put16(perDir)
			for j := 0; j < perDir; j++ {
				put16([]int{0x9010, 0x9011, 0x9012}[j%3])
				put16(2)
				put32(7)
				put32(start + 2 + perDir*12 + 4 + j*7)
			}
			put32(0)
			for j := 0; j < perDir; j++ {
				b = append(b, fmt.Sprintf("%c%02d:%02d\x00", "+-"[k%2], (k/2)%100, (k/200)%60)...)
				k++
			}
		}
		add("tiff-3444-different-time-zone-offsets", "tiff", b)
	}
	{ // XMP packets with thousands of items in one list, thousands of lists, thousands of attributes
		head := `<x:xmpmeta xmlns:x="adobe:ns:meta/"><rdf:RDF xmlns:rdf="http://www.w3.org/1999/02/22-rdf-syntax-ns#"><rdf:Description rdf:about="" xmlns:dc="http://purl.org/dc/elements/1.1/" xmlns:xmp="http://ns.adobe.com/xap/1.0/" xmlns:tiff="http://ns.adobe.com/tiff/1.0/"`
		tail := `</rdf:Description></rdf:RDF></x:xmpmeta>`
		for _, list := range [][2]string{{"subject", "Bag"}, {"creator", "Seq"}, {"title", "Alt"}, {"description", "Alt"}, {"rights", "Alt"}} {
			var b bytes.Buffer
			b.WriteString(head + "><dc:" + list[0] + "><rdf:" + list[1] + ">")
			for i := 0; i < 4000; i++ {
				fmt.Fprintf(&b, "<rdf:li>k%d</rdf:li>", i)
			}
			b.WriteString("</rdf:" + list[1] + "></dc:" + list[0] + ">" + tail)
			add("xmp-4000-items-in-dc-"+list[0], "xmp", b.Bytes())
		}
		var b bytes.Buffer
		b.WriteString(head + ">")
		for i := 0; i < 4000; i++ {
			fmt.Fprintf(&b, "<dc:subject><rdf:Bag><rdf:li>k%d</rdf:li></rdf:Bag></dc:subject>", i)
		}
		b.WriteString(tail)
		add("xmp-4000-dc-subject-lists", "xmp", b.Bytes())
		b.Reset()
		b.WriteString(head)
		for i := 0; i < 4000; i++ {
			fmt.Fprintf(&b, " tiff:Make=\"m%d\" xmp:Label=\"l%d\" xmp:CreateDate=\"not-a-date-%d\"", i, i, i)
		}
		b.WriteString("/>" + tail[len("</rdf:Description>"):])
		add("xmp-12000-repeated-attributes", "xmp", b.Bytes())
	}
	{ // item-based HEIF / AVIF whose meta box holds thousands of payload-less children of every handled type
		for _, typ := range []string{"hdlr", "iinf", "iref", "pitm", "iloc", "idat", "iprp", "free", "zzzz"} {
			for _, major := range []string{"avif", "heic"} {
				boxes := avifBoxes(gen.EncodeTIFF(gen.MinimalRecord(), gen.CanonicalLayout(), II, gen.AllDirs), major)
				var metaB *gen.Box
				for _, b := range boxes {
					if b.Type == "meta" {
						metaB = b
					}
				}
				if metaB == nil {
					continue
				}
				extra := make([]*gen.Box, 60000)
				for i := range extra {
					extra[i] = &gen.Box{Type: typ}
				}
				metaB.Children = append(extra, metaB.Children...)
				kind := "avif"
				if major == "heic" {
					kind = "heif"
				}
				add(fmt.Sprintf("%s-meta-with-60000-empty-%s-boxes", major, typ), kind, gen.EncodeBoxes(boxes).B)
			}
		}
	}
	{ // XMP whose elements are nested hundreds of thousands deep (the unit is one start tag)
		var b bytes.Buffer
		b.WriteString(`<x:xmpmeta xmlns:x="adobe:ns:meta/"><rdf:RDF xmlns:rdf="http://www.w3.org/1999/02/22-rdf-syntax-ns#"><rdf:Description rdf:about="" xmlns:a="http://ns.example.com/a/">`)
		for i := 0; i < 400000; i++ {
			b.WriteString("<a:b>")
		}
		add("xmp-400000-nested-start-tags", "xmp", b.Bytes())
		b.Reset()
		b.WriteString(`<x:xmpmeta xmlns:x="adobe:ns:meta/"><rdf:RDF xmlns:rdf="http://www.w3.org/1999/02/22-rdf-syntax-ns#">`)
		for i := 0; i < 100000; i++ {
			b.WriteString(`<rdf:Description rdf:about="">`)
		}
		add("xmp-100000-nested-descriptions", "xmp", b.Bytes())
	}
	for v := 2; v <= 4; v++ { // item lists longer than the reader's window, well-formed and with one entry the walk cannot step over
		for _, major := range []string{"avif", "heic"} {
			kind := map[string]string{"avif": "avif", "heic": "heif"}[major]
			add(fmt.Sprintf("%s-long-item-list-variant-%d", major, v), kind, gen.EncodeBoxes(avifBoxesVariant(minBlock, major, v)).B)
		}
	}
	{ // iref / iprp / iinf / ipco whose payload is a run of child headers that each claim more than is left of the parent
		for _, parent := range []string{"iref", "iprp", "iinf"} {
			for _, major := range []string{"avif", "heic"} {
				boxes := avifBoxes(minBlock, major)
				var target *gen.Box
				gen.Walk(boxes, func(b *gen.Box, d int) {
					if b.Type == parent {
						target = b
					}
				})
				if target == nil {
					continue
				}
				var run []byte
				for i := 0; i < 60000; i++ {
					run = append(run, 0xff, 0xff, 0xff, 0xff, 'd', 'i', 'm', 'g')
				}
				target.Children = nil
				target.Tail = run
				kind := map[string]string{"avif": "avif", "heic": "heif"}[major]
				add(fmt.Sprintf("%s-%s-with-60000-child-headers-that-overrun-it", major, parent), kind, gen.EncodeBoxes(boxes).B)
			}
		}
	}
	{ // many pending values that start inside the data and run past its end
		for _, cut := range []int{50, 1000, 3000} {
			d := overlappingStrings(83, 4000, 1, II).B
			first := 8 + 2 + 83*12 + 4
			if first+cut < len(d) {
				add(fmt.Sprintf("tiff-83-strings-of-4000-cut-%d-bytes-into-the-values", cut), "tiff", append([]byte{}, d[:first+cut]...))
			}
		}
	}
	{ // PNG with thousands of empty ancillary chunks before the eXIf chunk
		var before []gen.Chunk
		for i := 0; i < 20000; i++ {
			before = append(before, gen.Chunk{Type: "tEXt"})
		}
		d, _ := gen.BuildPNG(before, minBlock, nil)
		add("png-20000-empty-chunks-then-exif", "png", d.B)
	}
	repetitionCache = out
	return out
}

// jpegStructureSeeds are JPEG streams whose marker structure is unusual: bare SOI / EOI markers between the
// segments (nested and closed images), metadata after an EOI, stand-alone markers (TEM, RSTn) that carry no
// length.  What the scanner makes of them is its business; it must make the same of them whatever it scanned
// before, whatever the log level, and without crashing or spinning.
var jpegStructureCache []seed

func jpegStructureSeeds() []seed {
	if jpegStructureCache != nil {
		return jpegStructureCache
	}
	base, _ := gen.BuildJPEG(nil, true) // SOI + image tail
	tail := base.B[2:]
	minMM := gen.EncodeTIFF(gen.MinimalRecord(), gen.CanonicalLayout(), binary.BigEndian, gen.AllDirs)
	seg := func(m byte, p []byte) []byte {
		return append([]byte{0xff, m, byte((len(p) + 2) >> 8), byte(len(p) + 2)}, p...)
	}
	type tok struct {
		name string
		b    []byte
	}
	toks := []tok{
		{"SOI", []byte{0xff, 0xd8}},
		{"EOI", []byte{0xff, 0xd9}},
		{"Exif", seg(0xe1, append([]byte(gen.ExifPrefix), minMM.B...))},
		{"XMP", seg(0xe1, append([]byte(gen.XMPPrefix), []byte("<x:xmpmeta xmlns:x=\"adobe:ns:meta/\"><rdf:RDF xmlns:rdf=\"http://www.w3.org/1999/02/22-rdf-syntax-ns#\"><rdf:Description xmlns:xmp=\"http://ns.adobe.com/xap/1.0/\" xmp:Rating=\"3\"/></rdf:RDF></x:xmpmeta>")...))},
		{"COM", seg(0xfe, []byte("comment"))},
	}
	standalone := []tok{{"TEM", []byte{0xff, 0x01}}, {"RST0", []byte{0xff, 0xd0}}, {"RST7", []byte{0xff, 0xd7}}}
	var out []seed
	var rec func(names []string, b []byte, depth int, alphabet []tok)
	rec = func(names []string, b []byte, depth int, alphabet []tok) {
		if len(names) > 0 {
			data := append(append([]byte{0xff, 0xd8}, b...), tail...)
			out = append(out, seed{name: fmt.Sprintf("JPEG structure SOI %v image", names), kind: "jpeg", doc: &gen.Doc{B: data}, gen: true})
		}
		if depth == 0 {
			return
		}
		for _, t := range alphabet {
			rec(append(append([]string{}, names...), t.name), append(append([]byte{}, b...), t.b...), depth-1, alphabet)
		}
	}
	rec(nil, nil, 3, toks)
	// a stand-alone marker in front of, between and behind one or two ordinary tokens
	for _, sa := range standalone {
		for _, t1 := range toks {
			for pos := 0; pos < 2; pos++ {
				names := []string{sa.name, t1.name}
				b := append(append([]byte{}, sa.b...), t1.b...)
				if pos == 1 {
					names = []string{t1.name, sa.name}
					b = append(append([]byte{}, t1.b...), sa.b...)
				}
				rec(names, b, 1, toks)
			}
		}
	}
	jpegStructureCache = out
	return out
}

// degenerateRecords are TIFF blocks holding a single supported field whose value is cut down to a
// shape its parser does not expect (count 0, a string or date of 1..3 characters, a rational without
// its second half): the value then sits in the 4-byte slot although the parser was written for an
// out-of-line value.  The tag buffer is empty while such a field is parsed, so any use of a pending-tag
// slot reads what an earlier decode left there.
var degenerateCache []seed

func degenerateRecords() []seed {
	if degenerateCache != nil {
		return degenerateCache
	}
	var out []seed
	for _, bo := range []binary.ByteOrder{binary.LittleEndian, binary.BigEndian} {
		for fi, f := range gen.Fields {
			base := f.Menu[0]
			shapes := []gen.Val{}
			switch {
			case base.Type == gen.TASCII:
				for _, n := range []int{0, 1, 3} {
					if n <= len(base.Str) {
						shapes = append(shapes, gen.Val{Type: gen.TASCII, Str: base.Str[:n]}, gen.Val{Type: gen.TASCII, Str: base.Str[:n], NoNUL: true})
					}
				}
			case len(base.Rats) > 0:
				shapes = append(shapes, gen.Val{Type: base.Type}, gen.Val{Type: gen.TShort, Ints: []uint32{base.Rats[0][0] & 0xffff, base.Rats[0][1] & 0xffff}}, gen.Val{Type: gen.TLong, Ints: []uint32{base.Rats[0][0]}})
			default:
				shapes = append(shapes, gen.Val{Type: base.Type}, gen.Val{Type: gen.TByte, Ints: []uint32{1, 2, 3, 4}})
			}
			for si, v := range shapes {
				rec := &gen.Rec{Entries: []gen.Entry{{Dir: f.Dir, Tag: f.Tag, Name: f.Name, V: v}}}
				lay := gen.CanonicalLayout()
				lay.Trailing = 64
				d := gen.EncodeTIFF(rec, lay, bo, gen.AllDirs)
				out = append(out, seed{name: fmt.Sprintf("degenerate-%s-%d-%d-%s", f.Name, fi, si, map[bool]string{true: "II", false: "MM"}[bo == binary.LittleEndian]), kind: "tiff", doc: &gen.Doc{B: d.B}, gen: true})
			}
		}
	}
	degenerateCache = out
	return out
}

var seedCache []seed

func seeds() []seed {
	if seedCache != nil {
		return seedCache
	}
	var out []seed
	add := func(name, kind string, d *gen.Doc) {
		out = append(out, seed{name: name, kind: kind, doc: d, gen: true})
	}
	rich, min := richRecord(), gen.MinimalRecord()
	lay, can := richLayout(), gen.CanonicalLayout()
	can.Trailing = 64
	II, MM := binary.LittleEndian, binary.BigEndian
	add("tiff-min-II", "tiff", gen.EncodeTIFF(min, can, II, gen.AllDirs))
	add("tiff-rich-II", "tiff", gen.EncodeTIFF(rich, lay, II, gen.AllDirs))
	add("tiff-rich-MM", "tiff", gen.EncodeTIFF(rich, lay, MM, gen.AllDirs))
	{ // CR2-headed TIFF: "CR\2\0" at 8, first IFD at 16
		l := can
		l.FirstIFD = 16
		d := gen.EncodeTIFF(rich, l, II, gen.AllDirs)
		copy(d.B[8:], []byte{'C', 'R', 2, 0, 0, 0, 0, 0})
		add("cr2-rich-II", "tiff", d)
	}
	{ // Canon make + MakerNote directory (reaches the maker-note reader)
		r2 := richRecord()
		r2.Entries = append(r2.Entries, gen.Entry{Dir: gen.DirExif, Tag: 0x927c, Name: "MakerNote", V: gen.Val{Type: gen.TUndefined, Ints: []uint32{
			2, 0, 1, 0, 3, 0, 1, 0, 0, 0, 7, 0, 0, 0, 6, 0, 2, 0, 8, 0, 0, 0, 60, 9, 0, 0, 0, 0, 0, 0}}})
		add("tiff-canon-makernote-II", "tiff", gen.EncodeTIFF(r2, can, II, gen.AllDirs))
	}
	{ // Nikon make + Nikon maker-note header
		r3 := gen.MinimalRecord()
		r3.Entries[0].V = gen.S("Nikon")
		mn := []uint32{'N', 'i', 'k', 'o', 'n', 0, 2, 0x10, 0, 0, 'I', 'I', '*', 0, 8, 0, 0, 0, 1, 0, 2, 0, 3, 0, 1, 0, 0, 0, 5, 0, 0, 0, 0, 0, 0, 0}
		r3.Entries = append(r3.Entries, gen.Entry{Dir: gen.DirExif, Tag: 0x927c, Name: "MakerNote", V: gen.Val{Type: gen.TUndefined, Ints: mn}})
		add("tiff-nikon-makernote-II", "tiff", gen.EncodeTIFF(r3, can, II, gen.AllDirs))
	}
	{ // SubIFDs: a LONG array of directory offsets (here: two empty directories in the trailing zero bytes)
		r4 := gen.MinimalRecord()
		mk := func(a, b uint32) *gen.Doc {
			r := r4
			r.Entries = append(append([]gen.Entry{}, r4.Entries...), gen.Entry{Dir: gen.DirIFD0, Tag: 0x014a, Name: "SubIFDs", V: gen.Val{Type: gen.TLong, Ints: []uint32{a, b}}})
			return gen.EncodeTIFF(r, can, II, gen.AllDirs)
		}
		n := uint32(len(mk(0, 0).B))
		add("tiff-subifds-II", "tiff", mk(n-48, n-24))
	}
	for _, n := range []int{83, 84, 100, 128} { // pending out-of-line tags at and beyond the 84-slot tag buffer
		add(fmt.Sprintf("tiff-%d-pending-tags", n), "tiff", manyPendingTags(n))
	}
	xp := richXMP()
	{
		d, _ := gen.BuildJPEG([]gen.Seg{gen.SegJFIF(), gen.SegXMP(xp[:600]), gen.SegExif(gen.EncodeTIFF(rich, gen.CanonicalLayout(), II, gen.AllDirs)), gen.SegNestedImage(0xE2)}, true)
		add("jpeg-rich-II", "jpeg", d)
		d, _ = gen.BuildJPEG([]gen.Seg{gen.SegExif(gen.EncodeTIFF(min, gen.CanonicalLayout(), MM, gen.AllDirs))}, true)
		add("jpeg-min-MM", "jpeg", d)
	}
	{
		d, _ := gen.BuildPNG([]gen.Chunk{textChunk()}, gen.EncodeTIFF(rich, gen.CanonicalLayout(), MM, gen.AllDirs), nil)
		add("png-rich-MM", "png", d)
		d, _ = gen.BuildPNG(nil, gen.EncodeTIFF(min, gen.CanonicalLayout(), II, gen.AllDirs), nil)
		add("png-min-II", "png", d)
		d, _ = gen.BuildPNGLate([]gen.Chunk{textChunk()}, gen.EncodeTIFF(min, gen.CanonicalLayout(), MM, gen.AllDirs), nil)
		add("png-late-exif-MM", "png", d)
	}
	add("cr3-rich-II", "cr3", gen.EncodeBoxes(gen.CR3(gen.CR3FromRecord(rich, gen.CanonicalLayout(), II), 0)))
	add("cr3-min-MM-64bit", "cr3", gen.EncodeBoxes(gen.CR3(gen.CR3FromRecord(min, gen.CanonicalLayout(), MM), 4)))
	add("heif-rich-MM", "heif", gen.EncodeBoxes(gen.HEIF(gen.EncodeTIFF(rich, gen.CanonicalLayout(), MM, gen.AllDirs), 0)))
	add("heic-items-min-II", "heif", gen.EncodeBoxes(avifBoxes(gen.EncodeTIFF(min, gen.CanonicalLayout(), II, gen.AllDirs), "heic")))
	add("avif-items-min-MM", "avif", gen.EncodeBoxes(avifBoxes(gen.EncodeTIFF(min, gen.CanonicalLayout(), MM, gen.AllDirs), "avif")))
	add("heic-items-two-mdat-II", "heif", gen.EncodeBoxes(avifBoxesVariant(gen.EncodeTIFF(min, gen.CanonicalLayout(), II, gen.AllDirs), "heic", 1)))
	add("avif-items-two-mdat-MM", "avif", gen.EncodeBoxes(avifBoxesVariant(gen.EncodeTIFF(min, gen.CanonicalLayout(), MM, gen.AllDirs), "avif", 1)))
	{ // stray bytes and fill bytes in front of the Exif segment (the scanner resynchronises; where the source's reads end must not matter)
		e := gen.SegExif(gen.EncodeTIFF(min, gen.CanonicalLayout(), MM, gen.AllDirs))
		e.Junk = 63
		d, _ := gen.BuildJPEG([]gen.Seg{e, gen.SegXMP(xp[:300])}, true)
		add("jpeg-63-stray-bytes-before-exif", "jpeg", d)
		e.Junk, e.Fill = 0, 63
		d, _ = gen.BuildJPEG([]gen.Seg{gen.SegJFIF(), e}, true)
		add("jpeg-63-fill-bytes-before-exif", "jpeg", d)
	}
	add("xmp-sidecar", "xmp", &gen.Doc{B: xp})
	{ // token-dense packets: one look-ahead per attribute / element, many of them inside the final buffer
		dx := denseXMP(120)
		add("xmp-dense-tokens", "xmp", &gen.Doc{B: dx})
		d, _ := gen.BuildJPEG([]gen.Seg{gen.SegJFIF(), gen.SegXMP(dx)}, true)
		add("jpeg-xmp-dense-tokens", "jpeg", d)
	}
	// repository samples (first 8 KiB)
	for _, pat := range []string{"testImages/*", "assets/*.jpg"} {
		files, _ := filepath.Glob(filepath.Join(repoDir(), pat))
		sort.Strings(files)
		for _, f := range files {
			b, err := os.ReadFile(f)
			if err != nil || len(b) < 24 {
				continue
			}
			if len(b) > 8192 {
				b = b[:8192]
			}
			out = append(out, seed{name: "repo:" + filepath.Base(f), kind: sniffKind(b), doc: &gen.Doc{B: b}})
		}
	}
	seedCache = out
	return out
}

// bigSeeds are generated files whose payloads exceed every internal buffer
// (64 KiB preview start buffer, 4 KiB bufio windows, 1 KiB Exif scratch).
// They are explored through structural malformations only (their length
// makes per-byte spaces pointless).
var bigSeedCache []seed

func bigSeeds() []seed {
	if bigSeedCache != nil {
		return bigSeedCache
	}
	II, MM := binary.LittleEndian, binary.BigEndian
	rich := richRecord()
	var out []seed
	add := func(name, kind string, d *gen.Doc) {
		out = append(out, seed{name: name, kind: kind, doc: d, gen: true})
	}
	{
		p := gen.CR3FromRecord(rich, gen.CanonicalLayout(), II)
		p.Preview = append([]byte("\xff\xd8\xff\xdb\x00\x04\x00\x00"), pattern(70000, 'p')...)
		p.XPacket = append([]byte("<x:xmpmeta>"), pattern(9000, 'x')...)
		add("cr3-big-preview-II", "cr3", gen.EncodeBoxes(gen.CR3(p, 0)))
		p2 := gen.CR3FromRecord(rich, gen.CanonicalLayout(), MM)
		p2.Preview = append([]byte("\xff\xd8"), pattern(66000, 'q')...)
		add("cr3-big-preview-MM-64bit", "cr3", gen.EncodeBoxes(gen.CR3(p2, 4)))
		for _, n := range []int{10000, 13500, 20000} { // the preview box is the last thing in the file
			p3 := gen.CR3FromRecord(gen.MinimalRecord(), gen.CanonicalLayout(), II)
			p3.Preview = append([]byte("\xff\xd8"), pattern(n-2, 'r')...)
			top := gen.CR3(p3, 0)
			add(fmt.Sprintf("cr3-preview-%d-last-box", n), "cr3", gen.EncodeBoxes(top[:len(top)-1]))
		}
	}
	{ // TIFF with long strings and a large maker note
		r := richRecord()
		for i := range r.Entries {
			if r.Entries[i].Name == "ImageDescription" {
				r.Entries[i].V = gen.S(string(pattern(5000, 'd')))
			}
			if r.Entries[i].Name == "Software" {
				r.Entries[i].V = gen.S(string(pattern(1500, 's')))
			}
		}
		d := gen.EncodeTIFF(r, richLayout(), II, gen.AllDirs)
		add("tiff-long-strings-II", "tiff", d)
		j, _ := gen.BuildJPEG([]gen.Seg{gen.SegXMP(append([]byte("<x:xmpmeta>"), pattern(60000, 'x')...)), gen.SegExif(gen.EncodeTIFF(r, gen.CanonicalLayout(), MM, gen.AllDirs)), gen.SegAPPn(14, 65000)}, true)
		add("jpeg-big-segments-MM", "jpeg", j)
	}
	bigSeedCache = out
	return out
}

func sniffKind(b []byte) string {
	switch {
	case b[0] == 0xff && b[1] == 0xd8:
		return "jpeg"
	case string(b[:4]) == "II*\x00" || string(b[:4]) == "MM\x00*":
		return "tiff"
	case string(b[:4]) == "\x89PNG":
		return "png"
	case string(b[4:8]) == "ftyp" && string(b[8:12]) == "crx ":
		return "cr3"
	case string(b[4:8]) == "ftyp" && string(b[8:12]) == "avif":
		return "avif"
	case string(b[4:8]) == "ftyp":
		return "heif"
	case b[0] == '<':
		return "xmp"
	}
	return "other"
}

// denseXMP is a packet made of n shortest-possible attributes followed by n
// shortest-possible elements of a known namespace.
func denseXMP(n int) []byte {
	var b bytes.Buffer
	b.WriteString(`<?xpacket begin="" id="W5M0MpCehiHzreSzNTczkc9d"?><x:xmpmeta xmlns:x="adobe:ns:meta/"><rdf:RDF xmlns:rdf="http://www.w3.org/1999/02/22-rdf-syntax-ns#"><rdf:Description rdf:about="" xmlns:xmp="http://ns.adobe.com/xap/1.0/"`)
	for i := 0; i < n; i++ {
		fmt.Fprintf(&b, ` xmp:a%d="%d"`, i%10, i%10)
	}
	b.WriteString(">")
	for i := 0; i < n; i++ {
		fmt.Fprintf(&b, `<xmp:b%d>%d</xmp:b%d>`, i%10, i%10, i%10)
	}
	b.WriteString(`</rdf:Description></rdf:RDF></x:xmpmeta><?xpacket end="w"?>`)
	return b.Bytes()
}

func genSeeds() []seed {
	var out []seed
	for _, s := range seeds() {
		if s.gen {
			out = append(out, s)
		}
	}
	return out
}

// ftypBrands: every brand the sniffer or the box reader names, and two it does not.
var ftypBrands = []string{"crx ", "heic", "heix", "mif1", "msf1", "hevc", "avif", "miaf", "avis", "MiHE", "isom", "zzzz"}

var brandSeedCache []seed

// brandSeeds: file starts made of an ftyp box with every combination of major brand and two
// compatible brands (the positions the sniffer looks at, 8, 16 and 20), declared with 24 and
// 28 bytes, alone (the stream ends with the sniffer's window) and followed by the start of a meta box.
func brandSeeds() []seed {
	if brandSeedCache != nil {
		return brandSeedCache
	}
	var out []seed
	for _, major := range ftypBrands {
		for _, c1 := range ftypBrands {
			for _, c2 := range ftypBrands {
				for _, size := range []int{24, 28} {
					for tail := 0; tail < 2; tail++ {
						b := []byte{0, 0, 0, byte(size)}
						b = append(b, "ftyp"+major+"\x00\x00\x00\x00"+c1+c2...)
						if size == 28 {
							b = append(b, "heic"...)
						}
						if tail == 1 {
							b = append(b, "\x00\x00\x00\x0cmeta\x00\x00\x00\x00"...)
						} else {
							b = b[:24:24]
						}
						out = append(out, seed{name: fmt.Sprintf("ftyp(%d) %q/%q/%q tail %d", size, major, c1, c2, tail), kind: "heif", doc: &gen.Doc{B: b}, gen: true})
					}
				}
			}
		}
	}
	brandSeedCache = out
	return out
}
