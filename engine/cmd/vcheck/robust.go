package main

// C01 (no panic / crash), C02 (termination after linear work) and
// C14 (allocation bounded by input size) share their execution spaces: inputs
// x fault points x entry points.  Each property has its own oracle and its
// own run.

import (
	"encoding/binary"
	"fmt"
	"runtime/debug"
	"runtime/metrics"
	"strings"

	"verif/envio"
	"verif/gen"
	"verif/mc"
)

const (
	oraclePanic = iota // C01
	oracleWork         // C02
	oracleAlloc        // C14
)

type roRun struct {
	outcome string
	pi      *mc.PanicInfo
	rd      *envio.Reader
	alloc   uint64
}

var allocSample = []metrics.Sample{{Name: "/gc/heap/allocs:bytes"}}

func heapAllocs() uint64 {
	metrics.Read(allocSample)
	return allocSample[0].Value.Uint64()
}

func runEntry(e *roEntry, rd *envio.Reader, measure bool) (res roRun) {
	res.rd = rd
	var a0 uint64
	if measure {
		a0 = heapAllocs()
	}
	res.pi = mc.Guard(func() { res.outcome = e.run(rd) })
	if measure {
		res.alloc = heapAllocs() - a0
	}
	return
}

// judge applies the oracle of `mode`; it returns a failure kind ("" = ok) and a description.
func roJudge(mode int, e *roEntry, res roRun, streamLen int) (string, string) {
	switch mode {
	case oraclePanic:
		if res.pi != nil && res.pi.Class != "work-budget" {
			return res.pi.Signature(), res.pi.Value
		}
	case oracleWork:
		if res.rd.Exceeded || (res.pi != nil && res.pi.Class == "work-budget") {
			if res.pi == nil {
				return "unbounded-reading|" + e.name, "reader work budget exceeded (the library swallowed the sentinel)"
			}
			return "unbounded-reading|" + e.name, res.pi.Value
		}
		limit := int64(4*streamLen + 64<<10)
		if res.rd.BytesRequested > limit {
			return "work|" + e.name + "|bytes-requested", fmt.Sprintf("requested %d bytes from a %d-byte stream (limit %d)", res.rd.BytesRequested, streamLen, limit)
		}
		if res.rd.MaxSeek > 1<<40 {
			return "work|" + e.name + "|seek-target", fmt.Sprintf("seek to %d", res.rd.MaxSeek)
		}
	case oracleAlloc:
		if !e.alloc {
			return "", ""
		}
		limit := uint64(4<<20 + 16*streamLen)
		if res.alloc > limit {
			return "alloc|" + e.name, fmt.Sprintf("allocated %d bytes for a %d-byte stream (limit %d)", res.alloc, streamLen, limit)
		}
	}
	return "", ""
}

func roFail(x *mc.Exec, sigs map[string]bool, mode int, e *roEntry, kind, desc string, what string, input []byte, res roRun) {
	if sigs[kind] {
		return
	}
	sigs[kind] = true
	det := map[string]string{"entry": e.name, "case": what, "observed": desc, "input_hex": hexInput(input)}
	if res.pi != nil {
		det["stack"] = res.pi.Stack
	}
	x.Fail(kind, fmt.Sprintf("%s on %s: %s", e.name, what, desc), det)
}

var terminalName = []string{"EOF", "injected-error", "data-with-EOF"}

// S1: every truncation point x terminal answer
func roTruncations(mode int, ss []seed) mc.Harness {
	pairs := seedEntryPairs(ss)
	const chunk = 128
	return func(x *mc.Exec) {
		p := pairs[x.All("seed-entry", len(pairs))]
		s, e := ss[p.s], &entryPoints[p.e]
		term := x.All("terminal", 3)
		nch := (len(s.doc.B) + chunk) / chunk
		ch := x.All("cut-chunk", nch)
		sigs := map[string]bool{}
		lo, hi := ch*chunk, (ch+1)*chunk
		if hi > len(s.doc.B)+1 {
			hi = len(s.doc.B) + 1
		}
		outcomes := map[uint64]bool{}
		for k := lo; k < hi; k++ {
			pristine()
			rd := envio.New(s.doc.B)
			rd.Cut = k
			rd.Terminal = term
			res := runEntry(e, rd, mode == oracleAlloc)
			if kind, desc := roJudge(mode, e, res, k); kind != "" {
				roFail(x, sigs, mode, e, kind, desc, fmt.Sprintf("seed %s cut at %d of %d then %s", s.name, k, len(s.doc.B), terminalName[term]), s.doc.B[:k], res)
			}
			outcomes[hashBytes([]byte(res.outcome))] = true
		}
		x.Bulk = int64(hi-lo) - 1
		x.InputID = hashBytes([]byte(fmt.Sprint(s.name, e.name, term, ch)))
		x.Outcome = fmt.Sprintf("%s:%d", e.name, len(outcomes))
		x.Note("seed", s.name)
		x.Note("entry", e.name)
	}
}

// seeds as they are (no cut, no fault): used for generated families of unusual inputs
func roSeedsPlain(mode int, ss []seed) mc.Harness {
	pairs := seedEntryPairs(ss)
	const chunk = 8
	return func(x *mc.Exec) {
		// recursion whose depth follows the input overflows a 16 MiB stack on inputs of a megabyte or two instead of
		// the default 1 GiB on inputs of tens of megabytes; bounded recursion is nowhere near either
		debug.SetMaxStack(16 << 20)
		ch := x.All("pair-chunk", (len(pairs)+chunk-1)/chunk)
		sigs := map[string]bool{}
		n := 0
		for i := ch * chunk; i < (ch+1)*chunk && i < len(pairs); i++ {
			s, e := ss[pairs[i].s], &entryPoints[pairs[i].e]
			pristine()
			res := runEntry(e, envio.New(s.doc.B), mode == oracleAlloc)
			n++
			if kind, desc := roJudge(mode, e, res, len(s.doc.B)); kind != "" {
				roFail(x, sigs, mode, e, kind, desc, "seed "+s.name, s.doc.B, res)
			}
		}
		x.Bulk = int64(n) - 1
		x.InputID = hashBytes([]byte(fmt.Sprint("plain", ch, len(pairs))))
		x.Outcome = fmt.Sprint(ch % 7)
	}
}

// S2: every I/O call as a fault point
func roIOFaults(mode int, ss []seed) mc.Harness {
	pairs := seedEntryPairs(ss)
	return func(x *mc.Exec) {
		p := pairs[x.All("seed-entry", len(pairs))]
		s, e := ss[p.s], &entryPoints[p.e]
		pristine()
		rd := envio.New(s.doc.B)
		rd.X = x
		rd.Mode = 1
		res := runEntry(e, rd, mode == oracleAlloc)
		sigs := map[string]bool{}
		if kind, desc := roJudge(mode, e, res, len(s.doc.B)); kind != "" {
			roFail(x, sigs, mode, e, kind, desc, fmt.Sprintf("seed %s with I/O faults %s", s.name, x.DevLabels()), s.doc.B, res)
		}
		x.InputID = hashBytes([]byte(s.name + e.name + x.Devs().String()))
		x.Outcome = fmt.Sprintf("%x", hashBytes([]byte(res.outcome))&0xffff)
		x.Trivial = x.Cost() == 0
		x.Note("seed", s.name)
		x.Note("entry", e.name)
		x.Note("reader_calls", fmt.Sprint(rd.Calls))
	}
}

// S3: structure-aware malformations
func roMalformations(mode int, ss []seed, bound int) mc.Harness {
	var withFields []seed
	for _, s := range ss {
		if len(s.doc.Fields) > 0 {
			withFields = append(withFields, s)
		}
	}
	return func(x *mc.Exec) {
		s := withFields[x.All("seed", len(withFields))]
		d := &gen.Doc{B: append([]byte{}, s.doc.B...), Fields: s.doc.Fields}
		what := d.Malform(x, bound)
		sigs := map[string]bool{}
		outcome := uint64(0)
		for ei := range entryPoints {
			e := &entryPoints[ei]
			if !e.accepts(s.kind) && ei != 0 {
				continue
			}
			pristine()
			rd := envio.New(d.B)
			res := runEntry(e, rd, mode == oracleAlloc)
			if kind, desc := roJudge(mode, e, res, len(d.B)); kind != "" {
				roFail(x, sigs, mode, e, kind, desc, fmt.Sprintf("seed %s with %v", s.name, what), d.B, res)
			}
			outcome = outcome*31 + hashBytes([]byte(res.outcome))
		}
		x.InputID = hashBytes(d.B)
		x.Outcome = fmt.Sprintf("%x", outcome&0xffff)
		x.Trivial = len(what) == 0
		x.Note("seed", s.name)
		x.Note("malformation", fmt.Sprint(what))
	}
}

// box headers at the edge of the reader's buffer: a free box in front of moov shifts every later box so that
// the header of box number bi (in 32- or 64-bit form) starts at every distance -24..+4 from a multiple of 4096
func roBoxEdges(mode int) mc.Harness {
	mk := func() ([]*gen.Box, []*gen.Box) {
		top := gen.CR3(gen.CR3FromRecord(richRecord(), gen.CanonicalLayout(), binary.LittleEndian), 0)
		var all []*gen.Box
		gen.Walk(top, func(b *gen.Box, d int) { all = append(all, b) })
		return top, all
	}
	_, all0 := mk()
	nBoxes := len(all0)
	var eps []int
	for i := range entryPoints {
		if entryPoints[i].accepts("cr3") {
			eps = append(eps, i)
		}
	}
	return func(x *mc.Exec) {
		bi := 2 + x.All("box", nBoxes-2) // boxes behind ftyp and moov's own header
		large := x.All("64-bit-form", 2) == 1
		win := 1 + x.All("window", 2)
		sigs := map[string]bool{}
		var n int64
		for d := -24; d <= 4; d++ {
			top, all := mk()
			all[bi].Large = large
			gen.EncodeBoxes(top)
			pad := win*4096 + d - all[bi].Start - 8
			if pad < 0 {
				continue
			}
			top2, all2 := mk()
			all2[bi].Large = large
			top2 = append(top2[:1], append([]*gen.Box{{Type: "free", Payload: &gen.Doc{B: make([]byte, pad)}}}, top2[1:]...)...)
			doc := gen.EncodeBoxes(top2)
			for _, ei := range eps {
				e := &entryPoints[ei]
				pristine()
				res := runEntry(e, envio.New(doc.B), mode == oracleAlloc)
				n++
				if kind, desc := roJudge(mode, e, res, len(doc.B)); kind != "" {
					roFail(x, sigs, mode, e, kind, desc, fmt.Sprintf("CR3 with the header of box %s (64-bit form: %v) at offset %d", all2[bi].Type, large, all2[bi].Start), doc.B, res)
				}
			}
		}
		x.Bulk = n - 1
		x.InputID = hashBytes([]byte(fmt.Sprint("edge", bi, large, win)))
		x.Outcome = all0[bi].Type
	}
}

// container length x content count: a count that is validated against the declared length of the box,
// segment or chunk it sits in, while that length itself is not validated against the file
func roLengthAndCount(mode int, ss []seed) mc.Harness {
	type pair struct{ s, c, f int }
	var pairs []pair
	isLen := func(k string) bool { return k == "size32" || k == "size64" || k == "len16" || k == "len32" }
	isCnt := func(k string) bool {
		return k == "count16" || k == "count32" || k == "len16" || k == "len32" || k == "val16" || k == "val32"
	}
	for si, s := range ss {
		for ci, c := range s.doc.Fields {
			if !isLen(c.Kind) {
				continue
			}
			span := int(s.doc.Get(c))
			for fi, f := range s.doc.Fields {
				if fi != ci && isCnt(f.Kind) && f.Off > c.Off && f.Off < c.Off+span+8 {
					pairs = append(pairs, pair{si, ci, fi})
				}
			}
		}
	}
	lens := []uint64{0x02000000, 0x7ffffff0, 0xfffffff0, 0xffff}
	cnts := []uint64{0xffffffff, 0x00400000, 0x7fffffff, 0x0fffffff}
	const chunk = 4
	return func(x *mc.Exec) {
		ch := x.All("pair-chunk", (len(pairs)+chunk-1)/chunk)
		sigs := map[string]bool{}
		var n int64
		for pi := ch * chunk; pi < (ch+1)*chunk && pi < len(pairs); pi++ {
			p := pairs[pi]
			s := ss[p.s]
			c, f := s.doc.Fields[p.c], s.doc.Fields[p.f]
			for _, lv := range lens {
				for _, cv := range cnts {
					d := &gen.Doc{B: append([]byte{}, s.doc.B...), Fields: s.doc.Fields}
					d.Set(c, lv)
					d.Set(f, cv)
					for ei := range entryPoints {
						e := &entryPoints[ei]
						if !e.accepts(s.kind) && ei != 0 {
							continue
						}
						pristine()
						res := runEntry(e, envio.New(d.B), mode == oracleAlloc)
						n++
						if kind, desc := roJudge(mode, e, res, len(d.B)); kind != "" {
							roFail(x, sigs, mode, e, kind, desc, fmt.Sprintf("seed %s with %s=%#x and %s=%#x", s.name, c.Name, lv, f.Name, cv), d.B, res)
						}
					}
				}
			}
		}
		x.Bulk = n - 1
		x.InputID = hashBytes([]byte(fmt.Sprint("lc", ch)))
		x.Outcome = fmt.Sprint(ch % 5)
	}
}

// pairs of fields of one box / directory / segment: a width or size nibble together with the count it governs, a count
// together with the length next to it (both fields are read by the same few lines of code)
func roSameBoxPairs(mode int, ss []seed) mc.Harness {
	type pair struct{ s, a, b int }
	var pairs []pair
	for si, s := range ss {
		groups := map[string][]int{}
		var order []string
		for fi, f := range s.doc.Fields {
			k := f.Name
			if i := strings.LastIndex(k, "/"); i >= 0 {
				k = k[:i]
			} else {
				k = ""
			}
			if _, ok := groups[k]; !ok {
				order = append(order, k)
			}
			groups[k] = append(groups[k], fi)
		}
		for _, k := range order {
			g := groups[k]
			if len(g) < 2 || len(g) > 48 {
				continue
			}
			for i := 0; i < len(g); i++ {
				for j := i + 1; j < len(g) && j < i+12; j++ {
					pairs = append(pairs, pair{si, g[i], g[j]})
				}
			}
		}
	}
	few := func(d *gen.Doc, f gen.Field) []uint64 {
		m := d.Menu(f)
		if len(m) <= 4 {
			return m
		}
		return []uint64{m[0], m[len(m)-1], m[len(m)/2], m[1]}
	}
	const chunk = 8
	return func(x *mc.Exec) {
		ch := x.All("pair-chunk", (len(pairs)+chunk-1)/chunk)
		sigs := map[string]bool{}
		var n int64
		for pi := ch * chunk; pi < (ch+1)*chunk && pi < len(pairs); pi++ {
			p := pairs[pi]
			s := ss[p.s]
			fa, fb := s.doc.Fields[p.a], s.doc.Fields[p.b]
			for _, va := range few(s.doc, fa) {
				for _, vb := range few(s.doc, fb) {
					d := &gen.Doc{B: append([]byte{}, s.doc.B...), Fields: s.doc.Fields}
					d.Set(fa, va)
					d.Set(fb, vb)
					for ei := range entryPoints {
						e := &entryPoints[ei]
						if !e.accepts(s.kind) && ei != 0 {
							continue
						}
						pristine()
						res := runEntry(e, envio.New(d.B), mode == oracleAlloc)
						n++
						if kind, desc := roJudge(mode, e, res, len(d.B)); kind != "" {
							roFail(x, sigs, mode, e, kind, desc, fmt.Sprintf("seed %s with %s=%#x and %s=%#x", s.name, fa.Name, va, fb.Name, vb), d.B, res)
						}
					}
				}
			}
		}
		x.Bulk = n - 1
		x.InputID = hashBytes([]byte(fmt.Sprint("sbp", ch)))
		x.Outcome = fmt.Sprint(ch % 5)
	}
}

// S4: every single-byte substitution
func roByteSubst(mode int, ss []seed, stride int) mc.Harness {
	pairs := seedEntryPairs(ss)
	const chunk = 16
	return func(x *mc.Exec) {
		p := pairs[x.All("seed-entry", len(pairs))]
		s, e := ss[p.s], &entryPoints[p.e]
		nch := (len(s.doc.B) + chunk - 1) / chunk
		ch := x.All("position-chunk", nch)
		b := append([]byte{}, s.doc.B...)
		sigs := map[string]bool{}
		var n int64
		outcomes := map[uint64]bool{}
		for pos := ch * chunk; pos < (ch+1)*chunk && pos < len(b); pos++ {
			old := b[pos]
			for v := 0; v < 256; v += stride {
				if byte(v) == old {
					continue
				}
				b[pos] = byte(v)
				n++
				pristine()
				rd := envio.New(b)
				res := runEntry(e, rd, mode == oracleAlloc)
				if kind, desc := roJudge(mode, e, res, len(b)); kind != "" {
					roFail(x, sigs, mode, e, kind, desc, fmt.Sprintf("seed %s with byte %d set to %#02x (was %#02x)", s.name, pos, v, old), b, res)
				}
				outcomes[hashBytes([]byte(res.outcome))] = true
			}
			b[pos] = old
		}
		x.Bulk = n - 1
		x.InputID = hashBytes([]byte(fmt.Sprint(s.name, e.name, ch)))
		x.Outcome = fmt.Sprintf("%s:%d", e.name, len(outcomes))
	}
}

var roAlphabet = []byte{0x00, 0x01, 0x08, 0x2A, 0x49, 0x4D, 0xFF, 0xD8, 0xD9, 0xE1, 'f', 't', 'y', 'p', '<', 'x', ':'}

// S5: all short strings
func roShortStrings(mode int, maxLen int) mc.Harness {
	A := len(roAlphabet)
	return func(x *mc.Exec) {
		e := &entryPoints[x.All("entry", len(entryPoints))]
		first := x.All("first-symbol", A+1)
		term := x.All("terminal", 2)
		sigs := map[string]bool{}
		var n int64
		try := func(b []byte) {
			n++
			pristine()
			rd := envio.New(b)
			rd.Terminal = term
			res := runEntry(e, rd, mode == oracleAlloc)
			if kind, desc := roJudge(mode, e, res, len(b)); kind != "" {
				roFail(x, sigs, mode, e, kind, desc, fmt.Sprintf("stream % x then %s", b, terminalName[term]), b, res)
			}
		}
		if first == A {
			try(nil)
			for v := 0; v < 256; v++ {
				try([]byte{byte(v)})
			}
			if term == 0 {
				var b [2]byte
				for v := 0; v < 65536; v += 1 {
					b[0], b[1] = byte(v>>8), byte(v)
					try(b[:])
				}
			}
		} else {
			buf := make([]byte, maxLen)
			buf[0] = roAlphabet[first]
			var rec func(l, max int)
			rec = func(l, max int) {
				if l == max {
					try(buf[:max])
					return
				}
				for _, s := range roAlphabet {
					buf[l] = s
					rec(l+1, max)
				}
			}
			for L := 2; L <= maxLen; L++ {
				rec(1, L)
			}
		}
		x.Bulk = n - 1
		x.Outcome = e.name
		x.InputID = hashBytes([]byte(fmt.Sprint(e.name, first, term)))
	}
}

// S6: canonical header followed by every short tail
func roHeaderTails(mode int, tailLen int) mc.Harness {
	names, hs := canonicalHeaders()
	A := len(roAlphabet)
	return func(x *mc.Exec) {
		hi := x.All("header", len(hs))
		e := &entryPoints[x.All("entry", len(entryPoints))]
		term := x.All("terminal", 2)
		sigs := map[string]bool{}
		var n int64
		buf := append([]byte{}, hs[hi]...)
		base := len(buf)
		buf = append(buf, make([]byte, tailLen)...)
		var rec func(l, max int)
		rec = func(l, max int) {
			if l == max {
				n++
				pristine()
				rd := envio.New(buf[:base+max])
				rd.Terminal = term
				res := runEntry(e, rd, mode == oracleAlloc)
				if kind, desc := roJudge(mode, e, res, base+max); kind != "" {
					roFail(x, sigs, mode, e, kind, desc, fmt.Sprintf("header %s + tail % x then %s", names[hi], buf[base:base+max], terminalName[term]), buf[:base+max], res)
				}
				return
			}
			for _, s := range roAlphabet {
				buf[base+l] = s
				rec(l+1, max)
			}
		}
		for L := 0; L <= tailLen; L++ {
			rec(0, L)
		}
		_ = A
		x.Bulk = n - 1
		x.Outcome = e.name
		x.InputID = hashBytes([]byte(fmt.Sprint(hi, e.name, term)))
	}
}

func roSpaces(mode int, tier string) []mc.Space {
	all := seeds()
	gs := genSeeds()
	truncSeeds, substSeeds := gs, gs
	if tier != "thorough" { // the token-dense packets are there for the cut points; their bytes are all alike
		substSeeds = nil
		for _, sd := range gs {
			if !strings.Contains(sd.name, "dense-tokens") {
				substSeeds = append(substSeeds, sd)
			}
		}
	}
	mb, iob, strLen, tail, stride := 1, 1, 3, 2, 5
	if tier == "thorough" {
		truncSeeds = all
		mb, iob, strLen, tail, stride = 2, 2, 5, 3, 1
	}
	sp := []mc.Space{
		{Name: "truncations", H: roTruncations(mode, truncSeeds), NoLevels: true, Isolate: true,
			Rule: "every (seed, accepting entry point) x terminal answer {EOF, injected error, data-with-EOF} x every cut point k in [0,len]; one execution per 128 cut points"},
		{Name: "io-faults", H: roIOFaults(mode, all), Bound: iob, Isolate: true,
			Rule: "every Read/Seek/ReadAt call index of a decode of every seed is a fault point with deviations {error, EOF here, one empty read}; trivial = the fault-free run"},
		{Name: "malformations", H: roMalformations(mode, gs, mb), Bound: mb, Isolate: true,
			Rule: "every structural field (counts, types, lengths, offsets, box sizes, versions, nibbles) of every generated seed x its malformation menu, up to the bound simultaneously; every accepting entry point; trivial = unmodified seed"},
		{Name: "byte-substitutions", H: roByteSubst(mode, substSeeds, stride), NoLevels: true, Isolate: true,
			Rule: fmt.Sprintf("every byte position of every generated seed x values with stride %d (1 = all 255 other values), every accepting entry point; one execution per 16 positions", stride)},
		{Name: "short-strings", H: roShortStrings(mode, strLen), NoLevels: true, Isolate: true,
			Rule: fmt.Sprintf("every byte string of length <= 2 and every string of length <= %d over the 17-symbol alphabet, every entry point, then EOF or an error", strLen)},
		{Name: "header-tails", H: roHeaderTails(mode, tail), NoLevels: true, Isolate: true,
			Rule: fmt.Sprintf("every canonical 24-byte header followed by every string of length <= %d over the alphabet, every entry point, then EOF or an error", tail)},
	}
	sp = append(sp, mc.Space{Name: "degenerate-single-field-records", H: roSeedsPlain(mode, degenerateRecords()), NoLevels: true, Isolate: true,
		Rule: "for every supported Exif field alone in a record, in both byte orders: value shapes its parser does not expect (count 0; strings/dates of 0, 1 and 3 characters with and without NUL; a rational as two SHORTs / one LONG / no value; BYTE x4) x every accepting entry point"})
	sp = append(sp, mc.Space{Name: "ftyp-brand-combinations", H: roSeedsPlain(mode, brandSeeds()), NoLevels: true, Isolate: true,
		Rule: "file starts made of one ftyp box with every combination of major brand and two compatible brands over the 12 brands the library names (10) or not (2), declared with 24 and 28 bytes, ending with the sniffer's 24-byte window or followed by the start of a meta box (6912 streams) x every accepting entry point and the three sniffing entry points"})
	sp = append(sp, mc.Space{Name: "shared-value-bytes", H: roSeedsPlain(mode, amplificationSeeds()), NoLevels: true, Isolate: true,
		Rule: "TIFF blocks whose 40-83 string fields name overlapping or identical value bytes (steps 0, 1, 64, 100; counts 1000-4096), alone and repeated as 24 and 64 Exif segments of one JPEG in alternating byte orders x every accepting entry point: the work and memory of a decode must follow the file's length, not the number of names for the same bytes"})
	isoSeeds := []seed{}
	for _, sd := range gs {
		if sd.kind == "cr3" || sd.kind == "heif" || sd.kind == "avif" || sd.kind == "png" {
			isoSeeds = append(isoSeeds, sd)
		}
	}
	sp = append(sp, mc.Space{Name: "field-pairs-of-one-box", H: roSameBoxPairs(mode, isoSeeds), NoLevels: true, Isolate: true,
		Rule: "for every box / chunk payload of the generated CR3, HEIF, AVIF and PNG seeds: every pair of its structural fields at most 12 apart (a width nibble and the count it governs, a count and the length next to it) x 4 values each from the fields' menus (smallest, largest, middle, second) x every accepting entry point"})
	sp = append(sp, mc.Space{Name: "many-repetitions", H: roSeedsPlain(mode, repetitionSeeds()), NoLevels: true, Isolate: true,
		Rule: "the smallest legal unit of each container structure repeated 3000-20000 times (Exif segments of 31-130 bytes, XMP segments, empty comments, CMT boxes, 60000 payload-less children of every type the meta box handles, empty PNG chunks, XMP start tags nested 100000-400000 deep; stack limit 16 MiB) x every accepting entry point: a fixed cost per unit must stay small against the unit"})
	sp = append(sp, mc.Space{Name: "box-headers-at-buffer-edges", H: roBoxEdges(mode), NoLevels: true, Isolate: true,
		Rule: "the CR3 tree with a free box in front of moov sized so that the header of each later box, in 32- and in 64-bit form, starts at every distance -24..+4 from offsets 4096 and 8192 (the reader's buffer size): every CR3 entry point"})
	sp = append(sp, mc.Space{Name: "jpeg-marker-structures", H: roSeedsPlain(mode, jpegStructureSeeds()), NoLevels: true, Isolate: true,
		Rule: "JPEG streams of up to 3 tokens over {bare SOI, bare EOI, Exif, XMP, COM} after the SOI, and the stand-alone markers TEM / RST0 / RST7 (no length field) before or after one token followed by another, then the image: every JPEG entry point"})
	sp = append(sp, mc.Space{Name: "length-and-count-pairs", H: roLengthAndCount(mode, gs), NoLevels: true, Isolate: true,
		Rule: "for every box, segment or chunk length field of every generated seed and every count / length / value field inside the span it declares: the length set to {0x02000000, 0x7ffffff0, 0xfffffff0, 0xffff} and the inner field to {all ones, 0x00400000, 0x7fffffff, 0x0fffffff} together (a count validated against a declared length that is itself unvalidated) x every accepting entry point"})
	sp = append(sp, mc.Space{Name: "large-payload-malformations", H: roMalformations(mode, bigSeeds(), mb), Bound: mb, Isolate: true,
		Rule: "generated files whose payloads exceed the internal buffers (CR3 with a 70 KB preview and a 9 KB XMP packet, in 32- and 64-bit box forms; TIFF with 5000- and 1500-byte strings; JPEG with 60 KB XMP and 65 KB APPn segments): every structural field x its malformation menu, up to the bound simultaneously; every accepting entry point"})
	return sp
}

func init() {
	register(&mc.Check{Property: "C01", Setup: defaultLogger,
		Spaces: func(tier string) []mc.Space { return roSpaces(oraclePanic, tier) },
		Assumptions: []string{
			"a panic recovered by the harness, a fatal runtime error, a fault or a worker death is a violation; jpeg.ScanJPEG and xmp.ParseXmp converting their own internal panics to errors is 'returning normally'",
			"workers run the executions in separate processes; a dying or stuck worker is attributed to the execution in flight through a shared-memory progress record and confirmed by re-running it alone",
		}})
	register(&mc.Check{Property: "C02", Setup: defaultLogger,
		Spaces: func(tier string) []mc.Space { return roSpaces(oracleWork, tier) },
		Assumptions: []string{
			"work is measured by the instrumented reader: sum of len(p) over all Read/ReadAt calls <= 4*len+64KiB, seek targets <= 2^40; a reader work budget (64*len+1MiB) turns unbounded reading into a deterministic failure",
			"CPU-only non-termination is decided by the worker watchdog: no progress for 20 s in the batch and again for 60 s alone (>= 10^5 x the normal execution time)",
		}})
	register(&mc.Check{Property: "C14", Setup: defaultLogger,
		Spaces: func(tier string) []mc.Space {
			sp := roSpaces(oracleAlloc, tier)
			return sp
		},
		Assumptions: []string{
			"allocation = delta of runtime/metrics /gc/heap/allocs:bytes around the call in a worker whose only other goroutine is the idle watchdog; bound 4 MiB + 16*len has >= 100x slack over normal use",
			"worker death by out-of-memory is attributed like any crash",
		}})
}
