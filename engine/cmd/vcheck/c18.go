package main

// C18 — the assembly DCT kernels equal the portable kernels bit for bit, stay
// inside their argument, and both agree with the unscaled DCT-II.
//
// Enumerated: every vector with support <= s over a 16-value magnitude menu
// (12 decades, both signs), for the 64-point, 256-point and 64x64 kernels and
// for the float64 kernels, plus a fixed list of dense edge vectors.  Every
// vector lives in a guard-page arena (start-flush and end-flush), so an
// out-of-bounds access by the assembly faults or trips a canary.

import (
	"fmt"
	"math"
	"runtime/debug"
	"strings"

	"verif/guardmem"
	"verif/mc"

	"github.com/evanoberholster/imagemeta/imagehash/transforms"
	"github.com/evanoberholster/imagemeta/imagehash/transforms32"
)

var c18Menu = []float32{1, -1, 255, -255, 0.5, -0.5, 3, -3, 1e-3, -1e-3, 1e3, -1e3, 1e-6, -1e-6, 1e6, -1e6}

// asmAvailable is what the package's own init decided on this CPU.
var asmAvailable = transforms32.FlagUseASM

// c18Dispatch64/256 are the kernels the library's own init bound to the exported
// variables on this CPU (assembly or portable), kept before c18Portable re-points them.
var c18Dispatch64, c18Dispatch256 = transforms32.ForwardDCT64, transforms32.ForwardDCT256

// c18ArgLens: the exported one-dimensional kernels on arguments that are shorter or
// longer than the transform.  The portable kernels index their argument and so
// panic on a short one and leave the tail of a long one alone; whichever kernel the
// machine selects has to do the same and must not touch anything beyond the argument.
func c18ArgLens(x *mc.Exec) {
	debug.SetPanicOnFault(true)
	ki := x.All("kernel", 2)
	lens := [][]int{{0, 1, 8, 16, 31, 32, 33, 48, 63, 64, 65, 72, 96, 128}, {0, 1, 64, 128, 192, 255, 256, 257, 264, 320, 512}}[ki]
	ln := lens[x.All("length", len(lens))]
	flush := x.All("placement", 2) == 1
	n := []int{64, 256}[ki]
	name := []string{"dct64", "dct256"}[ki]
	fs := newFailSet(name + ".argument-length")
	goK := []func([]float32){transforms32.VerifForwardDCT64Go, transforms32.VerifForwardDCT256Go}[ki]
	dispK := []func([]float32){c18Dispatch64, c18Dispatch256}[ki]
	var a, g []float32
	var bufs []*guardmem.Buf
	if ln > 0 {
		ba, bg := guardmem.Alloc(4*ln, flush, 32), guardmem.Alloc(4*ln, flush, 32)
		defer ba.Free()
		defer bg.Free()
		bufs = []*guardmem.Buf{ba, bg}
		a, g = ba.Float32s(), bg.Float32s()
		for i := range a {
			a[i] = float32(int(lcgByte(18, i, ln))-128) / 8
			g[i] = a[i]
		}
	}
	at := fmt.Sprintf("%s on an argument of %d elements (%s-flush)", name, ln, map[bool]string{false: "start", true: "end"}[flush])
	pa := mc.Guard(func() { goK(a) })
	pg := mc.Guard(func() { dispK(g) })
	isFault := func(p *mc.PanicInfo) bool {
		return p != nil && (strings.Contains(p.Value, "fault") || strings.Contains(p.Value, "invalid memory address") || strings.Contains(p.Value, "nil pointer"))
	}
	switch {
	case isFault(pg):
		fs.add("memory outside the argument was accessed", at+": the selected kernel faulted: "+pg.Value)
	case isFault(pa):
		fs.add("memory outside the argument was accessed", at+": the portable kernel faulted: "+pa.Value)
	case (pa != nil) != (pg != nil):
		d := func(p *mc.PanicInfo) string {
			if p == nil {
				return "returned"
			}
			return "panicked (" + p.Value + ")"
		}
		fs.add("selected kernel and portable kernel differ on a wrong-sized argument", at+": portable "+d(pa)+", selected "+d(pg))
	case pa == nil:
		for i := range a {
			if math.Float32bits(a[i]) != math.Float32bits(g[i]) {
				fs.add("asm!=go", fmt.Sprintf("%s: element %d: portable %g selected %g", at, i, a[i], g[i]))
				break
			}
		}
		if ln > n {
			for i := n; i < ln; i++ {
				if want := float32(int(lcgByte(18, i, ln))-128) / 8; a[i] != want || g[i] != want {
					fs.add("elements behind the transform size were changed", fmt.Sprintf("%s: element %d", at, i))
					break
				}
			}
		}
	}
	canaryCheck(fs, name, bufs...)
	x.Outcome = fmt.Sprintf("%s/%v/%v", name, pa != nil, pg != nil)
	x.InputID = hashBytes([]byte{byte(ki), byte(ln), byte(ln >> 8), b2i(flush)})
	c18Flush(fs, x, 1)
}

// c18Portable makes the exported dispatch variables point at the portable
// kernels, so that the library's exported 2-D functions run their Go path
// while the assembly is reached through the verif exports.
func c18Portable() {
	transforms32.FlagUseASM = false
	transforms32.ForwardDCT64 = transforms32.VerifForwardDCT64Go
	transforms32.ForwardDCT256 = transforms32.VerifForwardDCT256Go
}

// cosTab[N][m] = cos(pi*m/(2N)), m in [0,4N)
var cosTab = map[int][]float64{}

func init() {
	for _, n := range []int{64, 256} {
		t := make([]float64, 4*n)
		for m := range t {
			t[m] = math.Cos(math.Pi * float64(m) / float64(2*n))
		}
		cosTab[n] = t
	}
}

// dctCoef is cos(pi/N*(p+1/2)*k).
func dctCoef(n, p, k int) float64 { return cosTab[n][((2*p+1)*k)%(4*n)] }

// worst observed |kernel - DCT-II| / L1 per kernel (evidence only)
func c18Track(name string, ratio float64, at func() string) {
	mc.Gauge(name, ratio, at)
}

// c18Judge compares one coefficient with the DCT-II value.  Two bands keep a
// marginal excess (rounding of the Lee recursion, a known finding for the
// 256-point float32 kernel) apart from a gross one (wrong constant, wrong
// butterfly), which has its own signature and is never masked.
func c18Judge(fs *failSet, kernel string, got, ref, l1, tol float64, at func() string) bool {
	d := math.Abs(got - ref)
	if d != d || math.IsInf(d, 0) {
		fs.add("not finite", at())
		return false
	}
	r := d / l1
	if r/tol > fs.worst {
		fs.worst, fs.worstAt = r/tol, at()
	}
	switch {
	case r > 4*tol:
		fs.add(fmt.Sprintf("vs DCT-II beyond 4x the bound %g*L1", tol), fmt.Sprintf("%s got %g DCT-II %g |diff|/L1=%.3g", at(), got, ref, r))
		return false
	case r > tol:
		fs.add(fmt.Sprintf("vs DCT-II beyond the bound %g*L1 (within 4x)", tol), fmt.Sprintf("%s got %g DCT-II %g |diff|/L1=%.3g", at(), got, ref, r))
		return false
	}
	return true
}

type kern1 struct {
	name string
	n    int
	asm  func([]float32)
	goK  func([]float32)
	tol  float64
}

var kerns1 = []kern1{
	{"dct64", 64, transforms32.VerifAsmForwardDCT64, transforms32.VerifForwardDCT64Go, 1e-5},
	{"dct256", 256, transforms32.VerifAsmForwardDCT256, transforms32.VerifForwardDCT256Go, 1e-5},
}

type sparse struct {
	pos []int
	val []float32
}

func (s sparse) String() string {
	out := ""
	for i := range s.pos {
		out += fmt.Sprintf("x[%d]=%g ", s.pos[i], s.val[i])
	}
	return out
}

// c18Eval1 runs one sparse vector through one 1-D kernel pair.
func c18Eval1(k *kern1, a, g []float32, sp sparse, fs *failSet) {
	for i := range a {
		a[i], g[i] = 0, 0
	}
	var l1 float64
	for i, p := range sp.pos {
		a[p], g[p] = sp.val[i], sp.val[i]
		l1 += math.Abs(float64(sp.val[i]))
	}
	if pi := mc.Guard(func() { k.goK(g) }); pi != nil {
		fs.add(pi.Signature(), k.name+" portable: "+sp.String()+pi.Value)
		return
	}
	if asmAvailable {
		if pi := mc.Guard(func() { k.asm(a) }); pi != nil {
			fs.add("panic|"+k.name+".asm|"+pi.Class, sp.String()+pi.Value)
			return
		}
		for i := range a {
			if math.Float32bits(a[i]) != math.Float32bits(g[i]) {
				fs.add("asm!=go bitwise", fmt.Sprintf("%s coefficient %d: asm %g (%#x) go %g (%#x)", sp, i, a[i], math.Float32bits(a[i]), g[i], math.Float32bits(g[i])))
				break
			}
		}
	}
	for c := 0; c < k.n; c++ {
		var ref float64
		for i, p := range sp.pos {
			ref += float64(sp.val[i]) * dctCoef(k.n, p, c)
		}
		if !c18Judge(fs, k.name, float64(g[c]), ref, l1, k.tol, func() string { return fmt.Sprintf("%scoefficient %d", sp, c) }) {
			break
		}
	}
}

func c18Flush(fs *failSet, x *mc.Exec, total int) {
	if fs.worstAt != "" {
		at := fs.worstAt
		c18Track(fs.prefix, fs.worst, func() string { return at })
	}
	fs.flush(x, total)
}

func canaryCheck(fs *failSet, what string, bufs ...*guardmem.Buf) {
	for i, b := range bufs {
		if rel, ok := b.Check(); !ok {
			fs.add("memory outside the argument was written", fmt.Sprintf("%s buffer %d: canary at relative byte offset %d overwritten", what, i, rel))
		}
	}
}

// enumRest calls f for every extension of sp by `more` further positions
// (ascending, > last) with every menu value.
func enumRest(n int, sp sparse, more int, menu []float32, f func(sparse)) int64 {
	if more == 0 {
		f(sp)
		return 1
	}
	var cnt int64
	last := sp.pos[len(sp.pos)-1]
	for p := last + 1; p < n; p++ {
		for _, v := range menu {
			cnt += enumRest(n, sparse{append(sp.pos, p), append(sp.val, v)}, more-1, menu, f)
		}
	}
	return cnt
}

func c18Sparse1(ki int, s int) mc.Harness {
	return func(x *mc.Exec) {
		debug.SetPanicOnFault(true)
		k := &kerns1[ki]
		p0 := x.All("pos0", k.n)
		v0 := x.All("val0", len(c18Menu))
		sup := 1 + x.All("support", s)
		place := x.All("placement", 5) // start-flush, end-flush (both 32-byte aligned), and three misaligned bases
		flush := place == 1
		extra := 0
		if place >= 2 {
			extra = 32
		}
		ba := guardmem.Alloc(4*k.n+extra, flush, 32)
		bg := guardmem.Alloc(4*k.n+extra, flush, 32)
		defer ba.Free()
		defer bg.Free()
		fs := newFailSet(k.name)
		a, g := ba.Float32s(), bg.Float32s()
		if place >= 2 {
			// a slice of the same values at a base that is only 4-, 8- or 16-byte aligned
			off := []int{1, 2, 4}[place-2]
			a, g = a[off:off+k.n:off+k.n], g[off:off+k.n:off+k.n]
		}
		n := enumRest(k.n, sparse{[]int{p0}, []float32{c18Menu[v0]}}, sup-1, c18Menu, func(sp sparse) { c18Eval1(k, a, g, sp, fs) })
		canaryCheck(fs, k.name, ba, bg)
		x.Bulk = n - 1
		x.Trivial = n == 0
		x.Outcome = fmt.Sprintf("%s/s%d", k.name, sup)
		x.InputID = hashBytes([]byte{byte(ki), byte(sup), byte(p0), byte(p0 >> 8), byte(v0), byte(place)})
		c18Flush(fs, x, int(n))
	}
}

func b2i(b bool) byte {
	if b {
		return 1
	}
	return 0
}

// ---- float64 kernels ----

type kern64 struct {
	name string
	n    int
	f    func([]float64)
}

var kerns64 = []kern64{
	{"f64.dct64", 64, transforms.VerifForwardDCT64},
	{"f64.dct256", 256, transforms.VerifForwardDCT256},
}

func c18Sparse64(ki int, s int) mc.Harness {
	return func(x *mc.Exec) {
		debug.SetPanicOnFault(true)
		k := &kerns64[ki]
		p0 := x.All("pos0", k.n)
		v0 := x.All("val0", len(c18Menu))
		sup := 1 + x.All("support", s)
		flush := x.All("flush", 2) == 1
		bg := guardmem.Alloc(8*k.n, flush, 32)
		defer bg.Free()
		g := bg.Float64s()
		fs := newFailSet(k.name)
		n := enumRest(k.n, sparse{[]int{p0}, []float32{c18Menu[v0]}}, sup-1, c18Menu, func(sp sparse) {
			for i := range g {
				g[i] = 0
			}
			var l1 float64
			for i, p := range sp.pos {
				g[p] = float64(sp.val[i])
				l1 += math.Abs(float64(sp.val[i]))
			}
			if pi := mc.Guard(func() { k.f(g) }); pi != nil {
				fs.add(pi.Signature(), sp.String()+pi.Value)
				return
			}
			for c := 0; c < k.n; c++ {
				var ref float64
				for i, p := range sp.pos {
					ref += float64(sp.val[i]) * dctCoef(k.n, p, c)
				}
				if !c18Judge(fs, k.name, g[c], ref, l1, 1e-12, func() string { return fmt.Sprintf("%scoefficient %d", sp, c) }) {
					break
				}
			}
		})
		canaryCheck(fs, k.name, bg)
		x.Bulk = n - 1
		x.Outcome = fmt.Sprintf("%s/s%d", k.name, sup)
		x.InputID = hashBytes([]byte{byte(ki), byte(sup), byte(p0), byte(p0 >> 8), byte(v0), b2i(flush), 64})
		c18Flush(fs, x, int(n))
	}
}

// ---- dense edge vectors ----

// denseVec returns the i-th dense vector of length n and its description.
func denseCount(n int) int { return len(c18Menu)*4 + 2*n + 64 }

func denseVec(n, i int) ([]float32, string) {
	v := make([]float32, n)
	m := len(c18Menu)
	switch {
	case i < m:
		for j := range v {
			v[j] = c18Menu[i]
		}
		return v, fmt.Sprintf("all entries %g", c18Menu[i])
	case i < 2*m:
		for j := range v {
			v[j] = c18Menu[i-m]
			if j%2 == 1 {
				v[j] = -v[j]
			}
		}
		return v, fmt.Sprintf("alternating +-%g", c18Menu[i-m])
	case i < 3*m:
		for j := range v {
			v[j] = c18Menu[i-2*m] * float32(j) / float32(n)
		}
		return v, fmt.Sprintf("ramp up to %g", c18Menu[i-2*m])
	case i < 4*m:
		for j := range v {
			v[j] = c18Menu[i-3*m] * float32(n-1-j) / float32(n)
		}
		return v, fmt.Sprintf("ramp down from %g", c18Menu[i-3*m])
	case i < 4*m+2*n:
		k := (i - 4*m) % n
		amp := []float64{1, 255}[(i-4*m)/n]
		for j := range v {
			v[j] = float32(amp * dctCoef(n, j, k))
		}
		return v, fmt.Sprintf("DCT basis vector k=%d amplitude %g", k, amp)
	default:
		// fixed multiplicative-congruential family, scaled over 12 decades
		idx := i - 4*m - 2*n
		scale := math.Pow(10, float64(idx%13)-6)
		st := uint64(idx)*0x9E3779B97F4A7C15 + 0x1234567
		for j := range v {
			st = st*6364136223846793005 + 1442695040888963407
			u := float64(st>>11)/float64(1<<53)*2 - 1
			v[j] = float32(u * scale)
		}
		return v, fmt.Sprintf("fixed LCG vector #%d at scale 1e%d", idx, idx%13-6)
	}
}

func refDCT(n int, v []float64) []float64 {
	out := make([]float64, n)
	for k := 0; k < n; k++ {
		var s float64
		for p := 0; p < n; p++ {
			s += v[p] * dctCoef(n, p, k)
		}
		out[k] = s
	}
	return out
}

func c18Dense(x *mc.Exec) {
	debug.SetPanicOnFault(true)
	i := x.All("vector", denseCount(256))
	ki := x.All("kernel", 4)
	n := 64
	if ki%2 == 1 {
		n = 256
	}
	if i >= denseCount(n) {
		x.Trivial = true
		x.Outcome = "n/a"
		return
	}
	flush := x.All("flush", 2) == 1
	v, desc := denseVec(n, i)
	v64 := make([]float64, n)
	var l1 float64
	for j := range v {
		v64[j] = float64(v[j])
		l1 += math.Abs(v64[j])
	}
	ref := refDCT(n, v64)
	x.Outcome = fmt.Sprintf("k%d", ki)
	x.InputID = hashBytes([]byte{byte(ki), byte(i), byte(i >> 8), b2i(flush), 0xDE})
	if ki < 2 {
		k := &kerns1[ki]
		fs := newFailSet(k.name + ".dense")
		ba := guardmem.Alloc(4*n, flush, 32)
		bg := guardmem.Alloc(4*n, flush, 32)
		defer ba.Free()
		defer bg.Free()
		a, g := ba.Float32s(), bg.Float32s()
		copy(a, v)
		copy(g, v)
		if pi := mc.Guard(func() { k.goK(g) }); pi != nil {
			fs.add(pi.Signature(), desc+": "+pi.Value)
		} else {
			if asmAvailable {
				if pi := mc.Guard(func() { k.asm(a) }); pi != nil {
					fs.add("panic|"+k.name+".asm|"+pi.Class, desc+": "+pi.Value)
				} else {
					for j := range a {
						if math.Float32bits(a[j]) != math.Float32bits(g[j]) {
							fs.add("asm!=go bitwise", fmt.Sprintf("%s coefficient %d: asm %g go %g", desc, j, a[j], g[j]))
							break
						}
					}
				}
			}
			for c := 0; c < n; c++ {
				if !c18Judge(fs, k.name, float64(g[c]), ref[c], l1, k.tol, func() string { return fmt.Sprintf("%s, coefficient %d", desc, c) }) {
					break
				}
			}
		}
		canaryCheck(fs, k.name, ba, bg)
		c18Flush(fs, x, 1)
		return
	}
	k := &kerns64[ki-2]
	fs := newFailSet(k.name + ".dense")
	bg := guardmem.Alloc(8*n, flush, 32)
	defer bg.Free()
	g := bg.Float64s()
	copy(g, v64)
	if pi := mc.Guard(func() { k.f(g) }); pi != nil {
		fs.add(pi.Signature(), desc+": "+pi.Value)
	} else {
		for c := 0; c < n; c++ {
			if !c18Judge(fs, k.name, g[c], ref[c], l1, 1e-12, func() string { return fmt.Sprintf("%s, coefficient %d", desc, c) }) {
				break
			}
		}
	}
	canaryCheck(fs, k.name, bg)
	c18Flush(fs, x, 1)
}

// ---- 2-D 64x64 kernel ----

var c18Menu2D = []float32{1, -1, 255, -255, 1e-3, 1e6}

// ref2D is the low 8x8 block of the 2-D DCT-II of a sparse 64x64 image,
// flattened as the library does: index 8*v+u, v = vertical frequency.
func ref2D(sp sparse) (out [64]float64) {
	for v := 0; v < 8; v++ {
		for u := 0; u < 8; u++ {
			var s float64
			for i, p := range sp.pos {
				r, c := p/64, p%64
				s += float64(sp.val[i]) * dctCoef(64, c, u) * dctCoef(64, r, v)
			}
			out[8*v+u] = s
		}
	}
	return
}

func c18Eval2D(a, g []float32, sp sparse, fs *failSet) {
	for i := range a {
		a[i], g[i] = 0, 0
	}
	var l1 float64
	for i, p := range sp.pos {
		a[p], g[p] = sp.val[i], sp.val[i]
		l1 += math.Abs(float64(sp.val[i]))
	}
	var fg, fa [64]float32
	if pi := mc.Guard(func() { fg = transforms32.DCT2DHash64(g) }); pi != nil { // portable path (dispatch variables set by c18Portable)
		fs.add(pi.Signature(), "portable 2-D: "+sp.String()+pi.Value)
		return
	}
	if asmAvailable {
		if pi := mc.Guard(func() { fa = transforms32.VerifAsmDCT2DHash64(a) }); pi != nil {
			fs.add("panic|dct2d.asm|"+pi.Class, sp.String()+pi.Value)
			return
		}
		for i := range fa {
			if math.Float32bits(fa[i]) != math.Float32bits(fg[i]) {
				fs.add("asm!=go bitwise", fmt.Sprintf("%s flattened coefficient %d: asm %g (%#x) go %g (%#x)", sp, i, fa[i], math.Float32bits(fa[i]), fg[i], math.Float32bits(fg[i])))
				break
			}
		}
	}
	ref := ref2D(sp)
	for i := range fg {
		if !c18Judge(fs, "dct2d64", float64(fg[i]), ref[i], l1, 2e-5, func() string { return fmt.Sprintf("%sflattened coefficient %d", sp, i) }) {
			break
		}
	}
}

func c18Sparse2D(withPairs bool) mc.Harness {
	return func(x *mc.Exec) {
		debug.SetPanicOnFault(true)
		p0 := x.All("pos0", 4096)
		mode := 0
		if withPairs {
			mode = x.All("second", 4) // 0 none, 1 same row, 2 same column, 3 mirrored
		}
		ba := guardmem.Alloc(4*4096, false, 32) // four whole pages: flush at both ends
		bg := guardmem.Alloc(4*4096, false, 32)
		defer ba.Free()
		defer bg.Free()
		a, g := ba.Float32s(), bg.Float32s()
		fs := newFailSet("dct2d64")
		var n int64
		r0, c0 := p0/64, p0%64
		switch mode {
		case 0:
			for _, v := range c18Menu {
				c18Eval2D(a, g, sparse{[]int{p0}, []float32{v}}, fs)
				n++
			}
		default:
			var seconds []int
			switch mode {
			case 1:
				for c := c0 + 1; c < 64; c++ {
					seconds = append(seconds, r0*64+c)
				}
			case 2:
				for r := r0 + 1; r < 64; r++ {
					seconds = append(seconds, r*64+c0)
				}
			case 3:
				for _, q := range []int{r0*64 + (63 - c0), (63-r0)*64 + c0, (63-r0)*64 + (63 - c0), c0*64 + r0} {
					if q > p0 {
						seconds = append(seconds, q)
					}
				}
			}
			for _, q := range seconds {
				for _, v := range c18Menu2D {
					for _, w := range c18Menu2D {
						c18Eval2D(a, g, sparse{[]int{p0, q}, []float32{v, w}}, fs)
						n++
					}
				}
			}
		}
		x.Bulk = n - 1
		x.Trivial = n == 0
		x.Outcome = fmt.Sprintf("2d/m%d", mode)
		x.InputID = hashBytes([]byte{byte(p0), byte(p0 >> 8), byte(mode), 0x2D})
		c18Flush(fs, x, int(n))
	}
}

// c18Exported checks the exported 2-D entry points of both packages (the
// ones the hash functions call) against the 2-D DCT-II on unit impulses.
func c18Exported(colStep int) mc.Harness {
	return func(x *mc.Exec) { c18ExportedH(x, colStep) }
}

func c18ExportedH(x *mc.Exec, colStep int) {
	debug.SetPanicOnFault(true)
	row := x.All("row", 256)
	which := x.All("function", 3) // 0 transforms.DCT2DHash64, 1 transforms.DCT2DHash256, 2 transforms32.DCT2DHash256
	size, low := 64, 8
	if which > 0 {
		size, low = 256, 16
	}
	if row >= size {
		x.Trivial = true
		x.Outcome = "n/a"
		return
	}
	fs := newFailSet([]string{"transforms.DCT2DHash64", "transforms.DCT2DHash256", "transforms32.DCT2DHash256"}[which])
	var n int64
	b64 := guardmem.Alloc(8*size*size, false, 32)
	defer b64.Free()
	f64 := b64.Float64s()
	f32 := make([]float32, size*size)
	step := 1
	if size == 256 {
		step = colStep
	}
	for col := row % step; col < size; col += step {
		for _, amp := range []float64{1, -255} {
			n++
			got := make([]float64, low*low)
			switch which {
			case 0, 1:
				for i := range f64 {
					f64[i] = 0
				}
				f64[row*size+col] = amp
				if which == 0 {
					r := transforms.DCT2DHash64(&f64)
					copy(got, r[:])
				} else {
					r := transforms.DCT2DHash256(&f64)
					copy(got, r[:])
				}
			case 2:
				for i := range f32 {
					f32[i] = 0
				}
				f32[row*size+col] = float32(amp)
				r := transforms32.DCT2DHash256(&f32)
				for i := range r {
					got[i] = float64(r[i])
				}
			}
			tol := 2e-12
			if which == 2 {
				tol = 2e-5
			}
			for v := 0; v < low; v++ {
				for u := 0; u < low; u++ {
					ref := amp * dctCoef(size, col, u) * dctCoef(size, row, v)
					vv, uu := v, u
					if !c18Judge(fs, fs.prefix, got[low*v+u], ref, math.Abs(amp), tol, func() string {
						return fmt.Sprintf("impulse %g at (row %d, col %d), coefficient (v=%d,u=%d)", amp, row, col, vv, uu)
					}) {
						v, u = low, low
					}
				}
			}
		}
	}
	// lines whose samples cancel: +a and -a in one row, in one column, and an alternating row (a line that sums to zero
	// is not a blank line)
	type ent struct {
		r, c int
		a    float64
	}
	for k := 0; k < 6; k++ {
		col := (row*5 + k*37) % size
		col2 := (col + 1 + k*11) % size
		row2 := (row + 1 + k*7) % size
		var es []ent
		switch k % 3 {
		case 0:
			es = []ent{{row, col, 1}, {row, col2, -1}}
		case 1:
			es = []ent{{row, col, 3}, {row2, col, -3}}
		default:
			for c := 0; c < size; c++ {
				es = append(es, ent{row, c, float64(1 - 2*(c%2))})
			}
		}
		if col == col2 || row == row2 {
			continue
		}
		n++
		got := make([]float64, low*low)
		l1 := 0.0
		for i := range f64 {
			f64[i] = 0
		}
		for i := range f32 {
			f32[i] = 0
		}
		for _, e := range es {
			f64[e.r*size+e.c] += e.a
			f32[e.r*size+e.c] += float32(e.a)
			l1 += math.Abs(e.a)
		}
		switch which {
		case 0:
			r := transforms.DCT2DHash64(&f64)
			copy(got, r[:])
		case 1:
			r := transforms.DCT2DHash256(&f64)
			copy(got, r[:])
		case 2:
			r := transforms32.DCT2DHash256(&f32)
			for i := range r {
				got[i] = float64(r[i])
			}
		}
		tol := 2e-12
		if which == 2 {
			tol = 2e-5
		}
		for v := 0; v < low; v++ {
			for u := 0; u < low; u++ {
				ref := 0.0
				for _, e := range es {
					ref += e.a * dctCoef(size, e.c, u) * dctCoef(size, e.r, v)
				}
				vv, uu, kk := v, u, k
				if !c18Judge(fs, fs.prefix, got[low*v+u], ref, l1, tol, func() string {
					return fmt.Sprintf("cancelling entries (pattern %d) in row %d, coefficient (v=%d,u=%d)", kk%3, row, vv, uu)
				}) {
					v, u = low, low
				}
			}
		}
	}
	canaryCheck(fs, "exported", b64)
	x.Bulk = n - 1
	x.Outcome = fmt.Sprintf("exp%d", which)
	x.InputID = hashBytes([]byte{byte(which), byte(row), 0xE7})
	c18Flush(fs, x, int(n))
}

// ---- magnitudes at the bottom of the float32 range ----

var c18Tiny = []float32{1e-30, -1e-30, 1.17549435e-38, -1.17549435e-38, 1e-38, -9e-39, 1e-41, -1e-41, 1.4e-45, -1.4e-45, 1, -255}

// c18TinyH compares assembly and portable kernels bit for bit on vectors whose
// entries (or whose intermediate differences) are subnormal: the portable code
// underflows gradually, so must the assembly.  The DCT-II bound is not judged
// here (a relative bound is meaningless at the bottom of the range).
func c18TinyH(x *mc.Exec) {
	debug.SetPanicOnFault(true)
	p0 := x.All("pos0", 64)
	ki := x.All("kernel", 3) // dct64, dct256, 2-D
	v0 := x.All("val0", len(c18Tiny))
	fs := newFailSet([]string{"dct64.tiny", "dct256.tiny", "dct2d64.tiny"}[ki])
	var n int64
	cmp := func(a, g []float32, what string) {
		for i := range a {
			if math.Float32bits(a[i]) != math.Float32bits(g[i]) {
				fs.add("asm!=go bitwise", fmt.Sprintf("%s: coefficient %d: asm %g (%#x) go %g (%#x)", what, i, a[i], math.Float32bits(a[i]), g[i], math.Float32bits(g[i])))
				return
			}
		}
	}
	if !asmAvailable {
		x.Trivial = true
		return
	}
	switch ki {
	case 0, 1:
		k := &kerns1[ki]
		ba, bg := guardmem.Alloc(4*k.n, true, 32), guardmem.Alloc(4*k.n, true, 32)
		defer ba.Free()
		defer bg.Free()
		a, g := ba.Float32s(), bg.Float32s()
		pos0 := p0 * k.n / 64
		for p1 := 0; p1 < k.n; p1++ {
			for _, v1 := range c18Tiny {
				for i := range a {
					a[i], g[i] = 0, 0
				}
				a[pos0], g[pos0] = c18Tiny[v0], c18Tiny[v0]
				if p1 != pos0 {
					a[p1], g[p1] = v1, v1
				}
				n++
				if pi := mc.Guard(func() { k.goK(g); k.asm(a) }); pi != nil {
					fs.add("panic|"+k.name+"|"+pi.Class, pi.Value)
					continue
				}
				cmp(a, g, fmt.Sprintf("x[%d]=%g x[%d]=%g", pos0, c18Tiny[v0], p1, v1))
			}
		}
	case 2:
		ba, bg := guardmem.Alloc(4*4096, false, 32), guardmem.Alloc(4*4096, false, 32)
		defer ba.Free()
		defer bg.Free()
		a, g := ba.Float32s(), bg.Float32s()
		// first entry anywhere on a 64-position diagonal grid, second entry in the same row or column, and a dense tiny image
		r0, c0 := p0, (p0*7)%64
		for q := 0; q < 128; q++ {
			for _, v1 := range c18Tiny {
				for i := range a {
					a[i], g[i] = 0, 0
				}
				a[r0*64+c0], g[r0*64+c0] = c18Tiny[v0], c18Tiny[v0]
				var p1 int
				if q < 64 {
					p1 = r0*64 + q
				} else {
					p1 = (q-64)*64 + c0
				}
				if p1 != r0*64+c0 {
					a[p1], g[p1] = v1, v1
				}
				n++
				var fa, fg [64]float32
				if pi := mc.Guard(func() { fg = transforms32.DCT2DHash64(g); fa = transforms32.VerifAsmDCT2DHash64(a) }); pi != nil {
					fs.add("panic|dct2d|"+pi.Class, pi.Value)
					continue
				}
				cmp(fa[:], fg[:], fmt.Sprintf("x[%d,%d]=%g x[%d]=%g", r0, c0, c18Tiny[v0], p1, v1))
			}
		}
		// dense: a fixed noise image scaled to the value's magnitude
		for i := range a {
			u := float32(lcgByte(5, i%64, i/64))/255 + 0.25
			a[i] = u * c18Tiny[v0]
			g[i] = a[i]
		}
		n++
		var fa, fg [64]float32
		if pi := mc.Guard(func() { fg = transforms32.DCT2DHash64(g); fa = transforms32.VerifAsmDCT2DHash64(a) }); pi == nil {
			cmp(fa[:], fg[:], fmt.Sprintf("dense noise image scaled by %g", c18Tiny[v0]))
		}
	}
	x.Bulk = n - 1
	x.Outcome = fs.prefix
	x.InputID = hashBytes([]byte{byte(p0), byte(ki), byte(v0), 0x71})
	fs.flush(x, int(n))
}

// c18Zeros: vectors of signed zeros (and one ordinary entry among negative zeros): the sign of a zero result is
// part of "bit for bit".
func c18Zeros(x *mc.Exec) {
	debug.SetPanicOnFault(true)
	ki := x.All("kernel", 3)
	pat := x.All("pattern", 6)
	fs := newFailSet([]string{"dct64.zeros", "dct256.zeros", "dct2d64.zeros"}[ki])
	if !asmAvailable {
		x.Trivial = true
		return
	}
	nz := float32(math.Copysign(0, -1))
	size := []int{64, 256, 4096}[ki]
	fill := func(v []float32, p int) string {
		for i := range v {
			v[i] = 0
		}
		switch pat {
		case 0:
			for i := range v {
				v[i] = nz
			}
			return "all entries -0"
		case 1:
			for i := 0; i < len(v); i += 2 {
				v[i] = nz
			}
			return "-0 at even indices, +0 at odd"
		case 2:
			for i := 1; i < len(v); i += 2 {
				v[i] = nz
			}
			return "-0 at odd indices, +0 at even"
		case 3:
			v[p] = nz
			return fmt.Sprintf("-0 at %d, +0 elsewhere", p)
		case 4:
			for i := range v {
				v[i] = nz
			}
			v[p] = 1
			return fmt.Sprintf("1 at %d, -0 elsewhere", p)
		default:
			for i := range v {
				v[i] = nz
			}
			v[p] = 0
			return fmt.Sprintf("+0 at %d, -0 elsewhere", p)
		}
	}
	np := 1
	if pat >= 3 {
		np = size
		if ki == 2 {
			np = 64
		}
	}
	ba, bg := guardmem.Alloc(4*size, false, 32), guardmem.Alloc(4*size, false, 32)
	defer ba.Free()
	defer bg.Free()
	a, g := ba.Float32s(), bg.Float32s()
	n := 0
	for p := 0; p < np; p++ {
		pp := p
		if ki == 2 {
			pp = p*64 + (p*7)%64
		}
		what := fill(a, pp)
		fill(g, pp)
		n++
		var ra, rg []float32
		var pi *mc.PanicInfo
		if ki < 2 {
			k := &kerns1[ki]
			pi = mc.Guard(func() { k.goK(g); k.asm(a) })
			ra, rg = a, g
		} else {
			var fa, fg [64]float32
			pi = mc.Guard(func() { fg = transforms32.DCT2DHash64(g); fa = transforms32.VerifAsmDCT2DHash64(a) })
			ra, rg = fa[:], fg[:]
		}
		if pi != nil {
			fs.add("panic|"+pi.Class, pi.Value)
			continue
		}
		for i := range ra {
			if math.Float32bits(ra[i]) != math.Float32bits(rg[i]) {
				kind := "asm!=go bitwise"
				if ra[i] == 0 && rg[i] == 0 {
					kind = "asm!=go: only the sign of a zero coefficient differs"
				}
				fs.add(kind, fmt.Sprintf("%s: coefficient %d: asm %g (%#x) go %g (%#x)", what, i, ra[i], math.Float32bits(ra[i]), rg[i], math.Float32bits(rg[i])))
				break
			}
		}
	}
	x.Bulk = int64(n) - 1
	x.InputID = hashBytes([]byte{byte(ki), byte(pat), 0x72})
	x.Outcome = fmt.Sprint(len(fs.order))
	fs.flush(x, n)
}

func init() {
	register(&mc.Check{
		Property: "C18",
		Setup:    c18Portable,
		Spaces: func(tier string) []mc.Space {
			s64, s256 := 2, 1
			pairs := false
			if tier == "thorough" {
				s64, s256, pairs = 3, 2, true
			}
			return []mc.Space{
				{Name: "dct64-sparse", H: c18Sparse1(0, s64), NoLevels: true, SplitDepth: 1, Isolate: true,
					Rule: fmt.Sprintf("every 64-vector with support <= %d over the 16-value menu {+-1e-6,+-1e-3,+-0.5,+-1,+-3,+-255,+-1e3,+-1e6}; assembly vs portable bitwise, portable vs float64 DCT-II within 1e-5*L1; guard pages at both flush positions, plus bases that are only 4-, 8- and 16-byte aligned", s64)},
				{Name: "dct256-sparse", H: c18Sparse1(1, s256), NoLevels: true, SplitDepth: 1, Isolate: true,
					Rule: fmt.Sprintf("every 256-vector with support <= %d over the same menu", s256)},
				{Name: "dct2d64-sparse", H: c18Sparse2D(pairs), NoLevels: true, SplitDepth: 1, Isolate: true,
					Rule: "every 64x64 input with one non-zero entry (4096 positions x 16 values)" + map[bool]string{true: "; and every pair in one row, one column or mirrored, over a 6-value menu squared", false: ""}[pairs] + "; assembly 2-D kernel vs the library's portable 2-D path bitwise, portable vs 2-D DCT-II within 2e-5*L1"},
				{Name: "float64-dct64-sparse", H: c18Sparse64(0, 2), NoLevels: true, SplitDepth: 1, Isolate: true,
					Rule: "float64 64-point kernel: support <= 2 vs DCT-II within 1e-12*L1"},
				{Name: "float64-dct256-sparse", H: c18Sparse64(1, s256), NoLevels: true, SplitDepth: 1, Isolate: true,
					Rule: fmt.Sprintf("float64 256-point kernel: support <= %d vs DCT-II within 1e-12*L1", s256)},
				{Name: "bottom-of-range", H: c18TinyH, NoLevels: true, SplitDepth: 1, Isolate: true,
					Rule: "assembly vs portable bitwise on vectors with one or two entries from {+-1e-30, +-min normal, subnormals down to 1.4e-45, 1, -255} (all second positions x 64 first positions) for the 64- and 256-point kernels, same-row/same-column pairs and a dense scaled noise image for the 64x64 kernel: gradual underflow must be identical"},
				{Name: "signed-zeros", H: c18Zeros, NoLevels: true, SplitDepth: 1, Isolate: true,
					Rule: "vectors of signed zeros (all -0; -0 at even / odd indices; one -0; one +0 or one 1 among -0, at every position) for the 64- and 256-point kernels and the 64x64 kernel: assembly vs portable bitwise, the sign of a zero included"},
				{Name: "argument-lengths", H: c18ArgLens, NoLevels: true, SplitDepth: 1, Isolate: true,
					Rule: "the exported ForwardDCT64 / ForwardDCT256 as bound by the library's init on this CPU, on arguments of 0..128 resp. 0..512 elements (14 + 11 lengths) flush against a guard page on either side: panics exactly where the portable kernel panics, bitwise the same result where it returns, elements behind the transform size untouched, no fault and no canary overwritten"},
				{Name: "dense-edge-vectors", H: c18Dense, NoLevels: true, SplitDepth: 1, Isolate: true,
					Rule: "constant, alternating, ramp vectors for each menu value, every DCT basis vector at two amplitudes, 64 fixed LCG vectors over 13 decades; 4 kernels x 2 flush positions"},
				{Name: "exported-2d", H: c18Exported(map[bool]int{true: 1, false: 8}[tier == "thorough"]), NoLevels: true, SplitDepth: 1, Isolate: true,
					Rule: "transforms.DCT2DHash64/256 and transforms32.DCT2DHash256 on unit impulses (two amplitudes; 64x64: every position; 256x256: every position in thorough, every 8th column per row with a row-dependent phase in quick) and on lines whose samples cancel (+a / -a in one row, in one column, an alternating row) vs the 2-D DCT-II low block"},
			}
		},
		Assumptions: []string{
			"reference = direct float64 DCT-II sum in c18.go (cosine table by math.Cos)",
			"assembly reached through the verif exports; library dispatch variables pointed at the portable kernels for the duration of the check",
			"NaN/Inf inputs and dense vectors outside the listed family are not enumerated; subnormal inputs are compared bitwise only (no DCT-II bound)",
		},
		Extra: func(cov map[string]interface{}) {
			cov["asm_available"] = asmAvailable
			w := map[string]string{}
			for k, g := range mc.Gauges() {
				w[k] = fmt.Sprintf("%.3f x bound at %s", g.V, g.At)
			}
			cov["worst_error_relative_to_bound"] = w
		},
	})
}
