package main

// C10 — JPEG segment framing: callbacks get exactly their payload; scanning resumes.

import (
	"bytes"
	"encoding/binary"
	"errors"
	"fmt"
	"io"
	"strings"

	"verif/gen"
	"verif/mc"
	"verif/obs"

	"github.com/evanoberholster/imagemeta/exif2"
	"github.com/evanoberholster/imagemeta/jpeg"
	"github.com/evanoberholster/imagemeta/meta"
	"github.com/evanoberholster/imagemeta/meta/utils"
)

var c10XmpLens = []int{100, 0, 1, 4095, 4096, 4097, 65502}

func c10Packet(n int) []byte {
	b := make([]byte, n)
	for i := range b {
		b[i] = byte('a' + (i*11+n)%26)
		if i%97 == 96 {
			b[i] = 0xff // marker-looking bytes inside the packet
		}
	}
	copy(b, "<x:xmpmeta>")
	return b
}

type c10Sym struct {
	name string
	mk   func(x *mc.Exec) gen.Seg
}

var errCallback = errors.New("verif: callback error")

func c10Symbols() []c10Sym {
	minII := gen.EncodeTIFF(gen.MinimalRecord(), gen.CanonicalLayout(), binary.LittleEndian, gen.AllDirs)
	richMM := gen.EncodeTIFF(richRecord(), gen.CanonicalLayout(), binary.BigEndian, gen.AllDirs)
	return []c10Sym{
		{"jfif", func(*mc.Exec) gen.Seg { return gen.SegJFIF() }},
		{"exif-min-II", func(*mc.Exec) gen.Seg { return gen.SegExif(minII) }},
		{"exif-rich-MM", func(*mc.Exec) gen.Seg { return gen.SegExif(richMM) }},
		{"exif-offset-behind-the-block", func(x *mc.Exec) gen.Seg {
			// a value offset or directory pointer of the block points behind its end (a cut-off Exif block): the library's own
			// reader must still keep to the segment
			d := gen.EncodeTIFF(richRecord(), gen.CanonicalLayout(), binary.LittleEndian, gen.AllDirs)
			var offs []gen.Field
			for _, f := range d.Fields {
				if f.Kind == "off32" {
					offs = append(offs, f)
				}
			}
			pick := []int{0, 1, len(offs) / 2, len(offs) - 1} // the first value offsets, one in the middle, the last (directory pointers are among them)
			f := offs[pick[x.All("dangling-offset-field", len(pick))]]
			d2 := &gen.Doc{B: append([]byte{}, d.B...), Fields: d.Fields}
			d2.Set(f, uint64(len(d.B)+[]int{64, 70000}[x.All("dangling-distance", 2)]))
			return gen.SegExif(d2)
		}},
		{"exif-prefix-with-an-invalid-tiff-header", func(x *mc.Exec) gen.Seg {
			// "Exif\0\0" followed by 8 or more bytes that are no TIFF header (the later segments of a split Exif block look like
			// this): whether the scanner reports it is its business; it must step over exactly this segment
			body := [][]byte{
				[]byte("XX*\x00\x08\x00\x00\x00 continuation of an Exif block"),
				[]byte("II*\x00\x00\x00\x00\x00\x00\x00\x00\x00"),
				[]byte("MM\x00*\x00\x00\x00\x00\x00\x00"),
				append([]byte("\xff\xd8\xff\xe1\x00\x10Exif\x00\x00"), bytes.Repeat([]byte{0xff}, 40)...),
			}[x.All("invalid-header-body", 4)]
			return gen.Seg{Marker: 0xE1, Payload: append([]byte(gen.ExifPrefix), body...), Kind: "exif-unspecified"}
		}},
		{"exif-prefix-without-a-tiff-header", func(x *mc.Exec) gen.Seg {
			// an APP1 payload that starts like Exif but is too short to hold the 8-byte TIFF header: not an Exif block
			k := x.All("bytes-after-the-exif-prefix", 8)
			return gen.Seg{Marker: 0xE1, Payload: append([]byte(gen.ExifPrefix), []byte("II*\x00\x08\x00\x00\x00")[:k]...), Kind: "short-exif"}
		}},
		{"xmp", func(x *mc.Exec) gen.Seg {
			return gen.SegXMP(c10Packet(c10XmpLens[x.All("xmp-length", len(c10XmpLens))]))
		}},
		{"jfxx", func(*mc.Exec) gen.Seg { return gen.SegJFXX() }},
		{"xmp-ext", func(*mc.Exec) gen.Seg { return gen.SegXMPExt() }},
		{"icc", func(*mc.Exec) gen.Seg { return gen.SegICC() }},
		{"photoshop", func(*mc.Exec) gen.Seg { return gen.SegPhotoshop() }},
		{"app5-ff-run", func(*mc.Exec) gen.Seg { return gen.SegFFRun(0xE5) }},
		{"app2-nested-image", func(*mc.Exec) gen.Seg { return gen.SegNestedImage(0xE2) }},
		{"near-exif", func(*mc.Exec) gen.Seg { return gen.SegNearExif() }},
		{"near-xmp", func(*mc.Exec) gen.Seg { return gen.SegNearXMP() }},
		{"com", func(*mc.Exec) gen.Seg { return gen.SegCOM() }},
		{"dri", func(x *mc.Exec) gen.Seg {
			return gen.SegDRIInterval([]uint16{0x0010, 0x00FF, 0xFF00, 0xFFE1, 0xFFD8, 0xFFFF, 0xD9FF}[x.All("dri-interval", 7)])
		}},
		{"sof2", func(*mc.Exec) gen.Seg { return gen.SegSOF(0xC2) }},
		{"tiny-ff-segment", func(x *mc.Exec) gen.Seg {
			m := []byte{0xFE, 0xE0, 0xEC, 0xE1}[x.All("tiny-marker", 4)]
			n := x.All("tiny-length", 4)
			return gen.Seg{Marker: m, Payload: bytes.Repeat([]byte{0xFF}, n), Kind: "tiny"}
		}},
		{"app1-ff-run", func(*mc.Exec) gen.Seg { return gen.SegFFRun(0xE1) }},
		{"app14-5000", func(*mc.Exec) gen.Seg { return gen.SegAPPn(14, 5000) }},
		{"hostile-extreme-length", func(x *mc.Exec) gen.Seg {
			m := []byte{0xE2, 0xFE, 0xE1, 0xED}[x.All("hostile-marker", 4)]
			l := []int{0xFFFF - 2, 0xFFFE - 2, 0xFFFD - 2, 0x8000 - 2, 0x7FFF - 2, 0x100 - 2, 0xFF - 2}[x.All("hostile-length", 7)]
			return gen.SegHostile(m, l)
		}},
	}
}

type c10Call struct {
	kind   string // exif / xmp
	header meta.ExifHeader
	data   []byte // bytes the callback could read (xmp) / consumed (exif)
	extra  string
}

var exifBehaviours = []string{"ReadFull", "1-byte reads", "7-byte reads", "Peek/Discard", "library DecodeJPEGIfd", "nil callback"}
var xmpBehaviours = []string{"ReadAll", "read nothing", "read 1 byte", "read half", "1-byte reads to EOF", "return error", "nil callback"}

func c10Harness(maxN int) mc.Harness {
	syms := c10Symbols()
	richWant := obs.Exif(exif2.Exif{}, true)
	_ = richWant
	return func(x *mc.Exec) {
		pristine()
		n := x.All("segments", maxN+1)
		var segs []gen.Seg
		var names []string
		for i := 0; i < n; i++ {
			s := syms[x.All("segment", len(syms))]
			segs = append(segs, s.mk(x))
			names = append(names, s.name)
		}
		eb := x.All("exif-callback", len(exifBehaviours))
		xb := x.All("xmp-callback", len(xmpBehaviours))
		c10Run(x, segs, names, eb, xb, 0)
	}
}

// c10Source is the reader handed to ScanJPEG: 0 = bytes.Reader, n > 0 = a plain
// reader that delivers at most n bytes per call.
func c10Source(b []byte, chunk int) io.Reader {
	if chunk == 0 {
		return bytes.NewReader(b)
	}
	return &chunkedReader{b: b, k: chunk}
}

// c10Run scans the JPEG made of segs and compares every callback with the generator's segment table.
func c10Run(x *mc.Exec, segs []gen.Seg, names []string, eb, xb, chunk int) {
	danglingOffsets := false
	for _, n := range names {
		if strings.Contains(n, "behind-the-block") {
			danglingOffsets = true
		}
	}
	{
		doc, table := gen.BuildJPEG(segs, true)
		x.InputID = hashBytes(doc.B) ^ uint64(eb)<<8 ^ uint64(xb)
		x.Note("segments", fmt.Sprint(names))
		x.Note("exif-callback", exifBehaviours[eb])
		x.Note("xmp-callback", xmpBehaviours[xb])
		hasMeta := false
		for _, s := range table {
			if s.Kind == "exif" || s.Kind == "xmp" {
				hasMeta = true
			}
		}
		x.Trivial = !hasMeta
		// expected calls
		var want []c10Call
		var wantErr error
		for _, s := range table {
			switch s.Kind {
			case "exif":
				if eb == 5 {
					continue
				}
				t := s.Payload[6:]
				bo := utils.LittleEndian
				var ifd uint32
				if t[0] == 'M' {
					bo = utils.BigEndian
					ifd = binary.BigEndian.Uint32(t[4:])
				} else {
					ifd = binary.LittleEndian.Uint32(t[4:])
				}
				want = append(want, c10Call{kind: "exif", header: meta.ExifHeader{ByteOrder: bo, FirstIfdOffset: ifd, TiffHeaderOffset: uint32(s.PayloadOff + 6), ExifLength: uint32(len(t)), FirstIfd: 1, ImageType: 1}, data: t})
			case "xmp":
				if xb == 6 {
					continue
				}
				want = append(want, c10Call{kind: "xmp", data: s.Payload[len(gen.XMPPrefix):]})
				if xb == 5 {
					wantErr = errCallback
				}
			}
			if wantErr != nil {
				break
			}
		}
		// run
		var got []c10Call
		ir := exif2.NewIfdReader(exif2.Logger)
		defer ir.Close()
		exifCB := func(r io.Reader, h meta.ExifHeader) error {
			c := c10Call{kind: "exif", header: h}
			nbytes := int(h.ExifLength)
			switch eb {
			case 0:
				b := make([]byte, nbytes)
				k, err := io.ReadFull(r, b)
				c.data = b[:k]
				if err != nil {
					c.extra = "read error " + err.Error()
				}
			case 1, 2:
				step := 1
				if eb == 2 {
					step = 7
				}
				var b []byte
				tmp := make([]byte, step)
				for len(b) < nbytes {
					m := step
					if nbytes-len(b) < m {
						m = nbytes - len(b)
					}
					k, err := r.Read(tmp[:m])
					b = append(b, tmp[:k]...)
					if err != nil {
						c.extra = "read error " + err.Error()
						break
					}
				}
				c.data = b
			case 3:
				br, ok := r.(exif2.BufferedReader)
				if !ok {
					c.extra = "reader is not a BufferedReader"
					break
				}
				var b []byte
				for len(b) < nbytes {
					m := 1000
					if nbytes-len(b) < m {
						m = nbytes - len(b)
					}
					p, err := br.Peek(m)
					b = append(b, p...)
					if err != nil {
						c.extra = "peek error " + err.Error()
						break
					}
					br.Discard(len(p))
				}
				c.data = b
			case 4:
				if err := ir.DecodeJPEGIfd(r, h); err != nil {
					c.extra = "DecodeJPEGIfd error " + err.Error()
				}
				c.data = nil
			}
			got = append(got, c)
			return nil
		}
		xmpCB := func(r io.Reader) error {
			c := c10Call{kind: "xmp"}
			switch xb {
			case 0:
				b, err := io.ReadAll(r)
				c.data = b
				if err != nil {
					c.extra = "ReadAll error " + err.Error()
				}
			case 1:
			case 2:
				b := make([]byte, 1)
				k, _ := r.Read(b)
				c.data = b[:k]
			case 3:
				// learn the length from the expectation index
				idx := 0
				for _, g := range got {
					if g.kind == "xmp" {
						idx++
					}
				}
				total := 0
				k := 0
				for _, w := range want {
					if w.kind == "xmp" {
						if k == idx {
							total = len(w.data)
						}
						k++
					}
				}
				b := make([]byte, total/2)
				m, _ := io.ReadFull(r, b)
				c.data = b[:m]
			case 4:
				var b []byte
				t := make([]byte, 1)
				for {
					k, err := r.Read(t)
					b = append(b, t[:k]...)
					if err != nil {
						if err != io.EOF {
							c.extra = "read error " + err.Error()
						}
						break
					}
					if len(b) > 70000 {
						c.extra = "more than 70000 bytes readable"
						break
					}
				}
				c.data = b
			case 5:
				got = append(got, c)
				return errCallback
			}
			got = append(got, c)
			return nil
		}
		var ecb func(io.Reader, meta.ExifHeader) error
		var xcb func(io.Reader) error
		if eb != 5 {
			ecb = exifCB
		}
		if xb != 6 {
			xcb = xmpCB
		}
		var err error
		pi := mc.Guard(func() { err = jpeg.ScanJPEG(c10Source(doc.B, chunk), ecb, xcb) })
		if pi != nil {
			failPanic(x, pi, "jpeg.ScanJPEG", doc.B, map[string]string{"segments": fmt.Sprint(names)})
			return
		}
		fail := func(kind, msg string) {
			x.Fail("framing|jpeg.ScanJPEG|"+kind, fmt.Sprintf("%s [segments %v, exif callback: %s, xmp callback: %s]", msg, names, exifBehaviours[eb], xmpBehaviours[xb]),
				map[string]string{"input_hex": hexInput(doc.B), "segments": fmt.Sprint(names)})
		}
		// callbacks made for a segment whose treatment is unspecified are set aside (identified by the absolute offset they report)
		{
			unspec := map[uint32]bool{}
			for _, s := range table {
				if s.Kind == "exif-unspecified" {
					unspec[uint32(s.PayloadOff+6)] = true
				}
			}
			if len(unspec) > 0 {
				kept := got[:0]
				for _, g := range got {
					if g.kind == "exif" && unspec[g.header.TiffHeaderOffset] {
						continue
					}
					kept = append(kept, g)
				}
				got = kept
			}
		}
		if err != wantErr {
			fail("return-value", fmt.Sprintf("ScanJPEG returned %v, want %v", err, wantErr))
		}
		if len(got) != len(want) {
			var gk, wk []string
			for _, g := range got {
				gk = append(gk, g.kind)
			}
			for _, w := range want {
				wk = append(wk, w.kind)
			}
			fail("callback-sequence", fmt.Sprintf("callbacks invoked %v, want %v", gk, wk))
			return
		}
		for i := range want {
			g, w := got[i], want[i]
			if g.kind != w.kind {
				fail("callback-order", fmt.Sprintf("callback %d is %s, want %s", i, g.kind, w.kind))
				return
			}
			if g.extra != "" && !(danglingOffsets && strings.HasPrefix(g.extra, "DecodeJPEGIfd error")) {
				// (the library's reader may refuse a block whose offsets point outside it; what it must not do is leave the segment)
				fail("callback-"+g.kind+"-read", fmt.Sprintf("callback %d (%s): %s", i, g.kind, g.extra))
			}
			switch w.kind {
			case "exif":
				if g.header != w.header {
					fail("exif-header", fmt.Sprintf("Exif callback %d got header {%v} want {%v}", i, g.header, w.header))
				}
				if eb != 4 && !bytes.Equal(g.data, w.data) {
					fail("exif-payload", fmt.Sprintf("Exif callback %d read %d bytes that differ from the %d payload bytes", i, len(g.data), len(w.data)))
				}
			case "xmp":
				var exp []byte
				switch xb {
				case 0, 4:
					exp = w.data
				case 1, 5:
					exp = nil
				case 2:
					if len(w.data) > 0 {
						exp = w.data[:1]
					}
				case 3:
					exp = w.data[:len(w.data)/2]
				}
				if !bytes.Equal(g.data, exp) {
					d := 0
					for d < len(g.data) && d < len(exp) && g.data[d] == exp[d] {
						d++
					}
					fail("xmp-payload", fmt.Sprintf("XMP callback %d could read %d bytes, the packet has %d (expected to see %d); first difference at %d", i, len(g.data), len(w.data), len(exp), d))
				}
			}
		}
		if eb == 4 && wantErr == nil {
			// the library's own reader: the record of the last Exif segment (each call overwrites/merges)
			nExif := 0
			for _, w := range want {
				if w.kind == "exif" {
					nExif++
				}
			}
			if nExif == 1 {
				for _, s := range table {
					if s.Kind == "exif" {
						pristine()
						ref := runDecode(exif2Parse, s.Payload[6:])
						gotO, refO := obs.Exif(ir.Exif, true), obs.Exif(ref.Exif, true)
						if diff := obs.Diff(gotO, refO, map[string]bool{"ImageType": true}); len(diff) > 0 {
							fail("decoded-record", "record decoded through ScanJPEG differs from the payload's own record: "+obs.Explain(gotO, refO, diff))
						}
					}
				}
			}
		}
		x.Outcome = fmt.Sprintf("%d calls err=%v", len(got), err)
	}
}

// c10Edge places a segment at every distance from the end of the scanner's 4096-byte
// buffer: [filler of every length] [target] [Exif] ... and checks the same framing facts.
func c10Edge(fillers []int) mc.Harness {
	minII := gen.EncodeTIFF(gen.MinimalRecord(), gen.CanonicalLayout(), binary.LittleEndian, gen.AllDirs)
	targets := []c10Sym{
		{"xmp-100", func(*mc.Exec) gen.Seg { return gen.SegXMP(c10Packet(100)) }},
		{"exif-min-II", func(*mc.Exec) gen.Seg { return gen.SegExif(minII) }},
		{"near-xmp", func(*mc.Exec) gen.Seg { return gen.SegNearXMP() }},
		{"near-exif", func(*mc.Exec) gen.Seg { return gen.SegNearExif() }},
		{"xmp-ext", func(*mc.Exec) gen.Seg { return gen.SegXMPExt() }},
		{"app1-ff-run", func(*mc.Exec) gen.Seg { return gen.SegFFRun(0xE1) }},
		{"xmp-0", func(*mc.Exec) gen.Seg { return gen.SegXMP(c10Packet(0)) }},
		{"com", func(*mc.Exec) gen.Seg { return gen.SegCOM() }},
	}
	combos := [][2]int{{0, 0}, {4, 0}, {3, 4}, {0, 2}} // (exif-callback, xmp-callback)
	chunks := []int{0, 4096, 1000, 33}
	return func(x *mc.Exec) {
		pristine()
		fl := fillers[x.All("filler-length", len(fillers))]
		t := targets[x.All("target", len(targets))]
		c := combos[x.All("callbacks", len(combos))]
		ch := chunks[x.All("source-chunk", len(chunks))]
		segs := []gen.Seg{gen.SegAPPn(14, fl), t.mk(x), gen.SegExif(minII), gen.SegXMP(c10Packet(100))}
		names := []string{fmt.Sprintf("app14-%d", fl), t.name, "exif-min-II", "xmp"}
		x.Note("source-chunk", fmt.Sprint(ch))
		c10Run(x, segs, names, c[0], c[1], ch)
	}
}

// c10Fill: fill bytes (any number of 0xFF may precede a marker, ITU T.81 B.1.1.2) before one segment of a short sequence.
func c10Fill(x *mc.Exec) {
	minII := gen.EncodeTIFF(gen.MinimalRecord(), gen.CanonicalLayout(), binary.LittleEndian, gen.AllDirs)
	syms := []c10Sym{
		{"exif-min-II", func(*mc.Exec) gen.Seg { return gen.SegExif(minII) }},
		{"xmp-100", func(*mc.Exec) gen.Seg { return gen.SegXMP(c10Packet(100)) }},
		{"jfif", func(*mc.Exec) gen.Seg { return gen.SegJFIF() }},
		{"com", func(*mc.Exec) gen.Seg { return gen.SegCOM() }},
		{"app14-5000", func(*mc.Exec) gen.Seg { return gen.SegAPPn(14, 5000) }},
		{"dri", func(*mc.Exec) gen.Seg { return gen.SegDRI() }},
	}
	pristine()
	n := 1 + x.All("segments", 3)
	var segs []gen.Seg
	var names []string
	for i := 0; i < n; i++ {
		s := syms[x.All("segment", len(syms))]
		segs = append(segs, s.mk(x))
		names = append(names, s.name)
	}
	at := x.All("fill-before", n)
	segs[at].Fill = []int{0, 1, 2, 3, 63, 70}[x.All("fill-count", 6)]
	segs[at].Junk = []int{0, 1, 2, 31, 61, 62, 63, 64, 65, 126, 127, 128, 191}[x.All("stray-bytes", 13)]
	names[at] = fmt.Sprintf("%d stray bytes + %d fill bytes + %s", segs[at].Junk, segs[at].Fill, names[at])
	c := [][2]int{{0, 0}, {4, 0}, {3, 4}}[x.All("callbacks", 3)]
	c10Run(x, segs, names, c[0], c[1], []int{0, 33}[x.All("source-chunk", 2)])
}

// c10Repeat scans one well-formed stream many times in one process without resetting anything in between:
// whatever the scanner keeps from one scan to the next (a recycled reader, a counter) must not show, not
// even when a narrow counter wraps.
func c10Repeat(x *mc.Exec) {
	minII := gen.EncodeTIFF(gen.MinimalRecord(), gen.CanonicalLayout(), binary.LittleEndian, gen.AllDirs)
	streams := [][]gen.Seg{
		{gen.SegExif(minII)},
		{gen.SegXMP(c10Packet(100))},
		{gen.SegJFIF(), gen.SegExif(minII), gen.SegNestedImage(0xEC), gen.SegXMP(c10Packet(100))},
		{gen.SegCOM(), gen.SegXMP(c10Packet(4097)), gen.SegAPPn(14, 5000), gen.SegExif(minII)},
	}
	si := x.All("stream", len(streams))
	plain := x.All("source", 2) == 1
	n := []int{70000, 70000, 700, 700}[si]
	doc, _ := gen.BuildJPEG(streams[si], true)
	pristine()
	scan := func() string {
		var sb strings.Builder
		var src io.Reader = bytes.NewReader(doc.B)
		if plain {
			src = struct{ io.Reader }{src}
		}
		err := jpeg.ScanJPEG(src, func(r io.Reader, h meta.ExifHeader) error {
			b, e := io.ReadAll(r)
			fmt.Fprintf(&sb, "exif %+v %x %v;", h, hashBytes(b), e)
			return nil
		}, func(r io.Reader) error {
			b, e := io.ReadAll(r)
			fmt.Fprintf(&sb, "xmp %d %x %v;", len(b), hashBytes(b), e)
			return nil
		})
		return sb.String() + "err=" + errStr(err)
	}
	var first string
	if pi := mc.Guard(func() { first = scan() }); pi != nil {
		failPanic(x, pi, "jpeg.ScanJPEG", doc.B, nil)
		return
	}
	for i := 2; i <= n; i++ {
		var got string
		if pi := mc.Guard(func() { got = scan() }); pi != nil {
			failPanic(x, pi, "jpeg.ScanJPEG", doc.B, map[string]string{"scan": fmt.Sprint(i)})
			return
		}
		if got != first {
			x.Fail("framing|jpeg.ScanJPEG|repeated-scan-differs", fmt.Sprintf("scan number %d of the same stream in one process gives %s ; the first scan gave %s", i, truncStr(got, 300), truncStr(first, 300)),
				map[string]string{"input_hex": hexInput(doc.B), "scan": fmt.Sprint(i)})
			break
		}
	}
	x.Bulk = int64(n) - 1
	x.InputID = hashBytes(doc.B) ^ uint64(b2i(plain))
	x.Outcome = truncStr(first, 40)
}

func init() {
	register(&mc.Check{Property: "C10", Setup: defaultLogger,
		Spaces: func(tier string) []mc.Space {
			n := 2
			if tier == "thorough" {
				n = 3
			}
			var fillers []int // the target's marker lands at stream offset 6+filler
			for fl := 0; fl <= 8300; fl++ {
				d := (6 + fl) % 4096
				if tier == "thorough" || d >= 4096-80 || d <= 8 || fl%97 == 0 {
					fillers = append(fillers, fl)
				}
			}
			edge := mc.Space{Name: "buffer-edge-positions", H: c10Edge(fillers), NoLevels: true, Isolate: true, SplitDepth: 1,
				Rule: fmt.Sprintf("[APP14 filler of length L][target][Exif][XMP] for %d filler lengths in 0..8300 (quick: every L that puts the target's marker within 80 bytes before or 8 after a multiple of 4096, and every 97th; thorough: all) x 8 targets (XMP, empty XMP, Exif, near-Exif, near-XMP, XMP extension, APP1 0xFF run, COM) x 4 callback pairs x 4 source deliveries (bytes.Reader; plain reader with chunks of 4096, 1000, 33): every look-ahead of the scanner is exercised at every distance from the end of its buffer", len(fillers))}
			fill := mc.Space{Name: "fill-bytes", H: c10Fill, NoLevels: true, Isolate: true, SplitDepth: 1,
				Rule: "sequences of 1..3 segments over {Exif, XMP, JFIF, COM, 5000-byte APP14, DRI} with 0, 1, 2, 3, 63 or 70 fill bytes (0xFF) and 0..191 stray non-0xFF bytes (13 lengths around the multiples of the scanner's 64-byte look-ahead) before one of them x 3 callback pairs x 2 source deliveries: fill bytes before a marker are part of the marker syntax (ITU T.81 B.1.1.2) and change nothing"}
			rep := mc.Space{Name: "repeated-scans", H: c10Repeat, NoLevels: true, Isolate: true, SplitDepth: 1,
				Rule: "4 well-formed streams (Exif alone, XMP alone, JFIF + Exif + nested SOI/EOI + XMP, COM + long XMP + APP14 + Exif) scanned 70000 resp. 700 times in one process with nothing reset in between, from a bytes.Reader and from a plain reader: every scan makes the calls of the first one (which the other spaces compare with the segment table)"}
			return []mc.Space{edge, fill, rep, {Name: "marker-sequences", H: c10Harness(n), NoLevels: true, Isolate: true, SplitDepth: 2,
				Rule: fmt.Sprintf("every sequence of <= %d segments over a 22-symbol alphabet (JFIF, JFXX, Exif min/rich both byte orders, Exif whose offsets point behind the block, the Exif prefix followed by 0-7 bytes or by bytes that are no TIFF header, XMP with 7 packet lengths incl. 0, 4096+-1, 65502, XMP extension, ICC, Photoshop, 0xFF runs, nested SOI/EOI, near-Exif, near-XMP, COM, DRI with 7 restart intervals incl. marker-looking ones, SOF2, COM/APP0/APP12/APP1 segments of 0-3 bytes of 0xFF, 5000-byte APPn, ignored segments (APP2, COM, non-Exif APP1, APP13) of length 0xFFFF, 0xFFFE, 0xFFFD, 0x8000, 0x7FFF, 0x100, 0xFF filled with marker-looking structure) followed by DQT SOF0 DHT SOS entropy EOI x 6 Exif-callback behaviours x 7 XMP-callback behaviours; trivial = no metadata segment", n)}}
		},
		Assumptions: []string{"expected callback arguments and payloads come from the generator's own segment table", "Exif callbacks consume exactly their declared length (the statement's premise); under-consuming Exif callbacks are not explored"},
	})
}
