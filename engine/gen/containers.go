package gen

import (
	"encoding/binary"
	"fmt"
	"hash/crc32"
)

var be = binary.BigEndian

// ---------------------------------------------------------------------------
// JPEG

// Seg is one JPEG marker segment.
type Seg struct {
	Marker  byte
	Payload []byte // bytes after the 2-byte length field
	Kind    string // exif, xmp, jfif, other...
	Sub     *Doc   // structured payload (fields are carried over)
	SubOff  int    // offset of Sub inside Payload
	Fill    int    // number of 0xFF fill bytes written before the marker (ITU T.81 B.1.1.2)
	Junk    int    // number of stray non-0xFF bytes written before the marker (and before the fill bytes): scanners resynchronise on the next 0xFF

	Off        int // set by BuildJPEG: offset of the 0xFF of the marker
	PayloadOff int // offset of the first payload byte
}

const (
	ExifPrefix = "Exif\x00\x00"
	XMPPrefix  = "http://ns.adobe.com/xap/1.0/\x00"
)

func SegExif(tiff *Doc) Seg {
	return Seg{Marker: 0xE1, Payload: append([]byte(ExifPrefix), tiff.B...), Kind: "exif", Sub: tiff, SubOff: len(ExifPrefix)}
}
func SegXMP(packet []byte) Seg {
	return Seg{Marker: 0xE1, Payload: append([]byte(XMPPrefix), packet...), Kind: "xmp"}
}
func SegJFIF() Seg {
	return Seg{Marker: 0xE0, Payload: []byte("JFIF\x00\x01\x02\x00\x00\x48\x00\x48\x00\x00"), Kind: "jfif"}
}
func SegJFXX() Seg {
	return Seg{Marker: 0xE0, Payload: []byte("JFXX\x00\x10\xff\xd8\xff\xdb\x00\x04\x00\x00\xff\xd9"), Kind: "jfxx"}
}
func SegXMPExt() Seg {
	return Seg{Marker: 0xE1, Payload: append([]byte("http://ns.adobe.com/xmp/extension/\x00"+"0123456789ABCDEF0123456789ABCDEF\x00\x00\x01\x00\x00\x00\x00\x00"), []byte("<x:xmpmeta>ext</x:xmpmeta>")...), Kind: "xmp-ext"}
}
func SegICC() Seg {
	return Seg{Marker: 0xE2, Payload: append([]byte("ICC_PROFILE\x00\x01\x01"), make([]byte, 128)...), Kind: "icc"}
}
func SegPhotoshop() Seg {
	return Seg{Marker: 0xED, Payload: []byte("Photoshop 3.0\x008BIM\x04\x04\x00\x00\x00\x00\x00\x00"), Kind: "photoshop"}
}
func SegFFRun(marker byte) Seg {
	p := []byte("data")
	for i := 0; i < 70; i++ {
		p = append(p, 0xff)
	}
	p = append(p, 0x00, 0xff, 0xe1, 0x00, 0x08, 'E', 'x', 'i', 'f', 0, 0)
	return Seg{Marker: marker, Payload: p, Kind: "ff-run"}
}
func SegNestedImage(marker byte) Seg {
	// a payload containing a complete little JPEG (thumbnail) with its own Exif-looking APP1
	p := []byte("thumb\x00\xff\xd8\xff\xe1\x00\x10Exif\x00\x00MM\x00*\x00\x00\x00\x08\xff\xdb\x00\x04\x00\x00\xff\xd9")
	return Seg{Marker: marker, Payload: p, Kind: "nested-image"}
}
func SegNearExif() Seg { // starts like the Exif prefix but is one byte off
	return Seg{Marker: 0xE1, Payload: []byte("Exif\x00\x01II*\x00\x08\x00\x00\x00\x00\x00\x00\x00\x00\x00"), Kind: "near-exif"}
}
func SegNearXMP() Seg {
	return Seg{Marker: 0xE1, Payload: []byte("http://ns.adobe.com/xap/1.0/ <x:xmpmeta/>"), Kind: "near-xmp"}
}
func SegCOM() Seg {
	return Seg{Marker: 0xFE, Payload: []byte("a comment \xff\xd8 with markers \xff\xd9 inside"), Kind: "com"}
}
func SegDRI() Seg { return SegDRIInterval(0x0010) }

// SegDRIInterval is a DRI segment with the given restart interval (its two payload bytes may look like markers).
func SegDRIInterval(ri uint16) Seg {
	return Seg{Marker: 0xDD, Payload: []byte{byte(ri >> 8), byte(ri)}, Kind: "dri"}
}
func SegSOF(marker byte) Seg {
	return Seg{Marker: marker, Payload: []byte{8, 0x0f, 0xa0, 0x17, 0x70, 3, 1, 0x22, 0, 2, 0x11, 1, 3, 0x11, 1}, Kind: "sof"}
}
func SegAPPn(n byte, size int) Seg {
	p := make([]byte, size)
	for i := range p {
		p[i] = byte('a' + i%23)
	}
	return Seg{Marker: 0xE0 + n, Payload: p, Kind: fmt.Sprintf("app%d", n)}
}

// SegHostile is a non-metadata segment of an exact payload length whose whole
// payload repeats marker-looking structure (a fake Exif APP1, a fake XMP APP1,
// a fake DQT, SOI/EOI), so that a scanner that resumes anywhere inside it
// instead of after it reports callbacks or stops early.
func SegHostile(marker byte, payloadLen int) Seg {
	unit := []byte("\xff\xe1\x00\x16Exif\x00\x00MM\x00*\x00\x00\x00\x08\x00\x00\x00\x00\x00\x00" +
		"\xff\xe1\x00\x2bhttp://ns.adobe.com/xap/1.0/\x00<x:xmpmeta/>" +
		"\xff\xd8\xff\xdb\x00\x04\x00\x00\xff\xd9\xff")
	p := make([]byte, payloadLen)
	copy(p, "hostile\x00")
	for i := 8; i < payloadLen; i++ {
		p[i] = unit[(i-8)%len(unit)]
	}
	return Seg{Marker: marker, Payload: p, Kind: fmt.Sprintf("hostile-%02x-%d", marker, payloadLen)}
}

// BuildJPEG writes SOI, the segments, then DQT DHT SOF0 SOS, entropy data, EOI.
func BuildJPEG(segs []Seg, withSOI bool) (*Doc, []Seg) {
	d := &Doc{}
	if withSOI {
		d.Bytes(0xff, 0xd8)
	}
	out := make([]Seg, len(segs))
	for i, s := range segs {
		for k := 0; k < s.Junk; k++ {
			d.Bytes(byte('a' + k%26))
		}
		for k := 0; k < s.Fill; k++ {
			d.Bytes(0xff)
		}
		s.Off = len(d.B)
		d.Bytes(0xff, s.Marker)
		d.U16(be, uint16(len(s.Payload)+2), fmt.Sprintf("jpeg.seg%d(%s).length", i, s.Kind), "len16")
		s.PayloadOff = len(d.B)
		if s.Sub != nil {
			d.B = append(d.B, s.Payload[:s.SubOff]...)
			d.Append(s.Sub, fmt.Sprintf("jpeg.seg%d", i))
			d.B = append(d.B, s.Payload[s.SubOff+len(s.Sub.B):]...)
		} else {
			d.B = append(d.B, s.Payload...)
		}
		out[i] = s
	}
	// image: DQT, SOF0, DHT, SOS + entropy + EOI
	d.Bytes(0xff, 0xdb)
	d.U16(be, 67, "jpeg.dqt.length", "len16")
	d.B = append(d.B, make([]byte, 65)...)
	sof := SegSOF(0xC0)
	d.Bytes(0xff, 0xc0)
	d.U16(be, uint16(len(sof.Payload)+2), "", "")
	d.B = append(d.B, sof.Payload...)
	d.Bytes(0xff, 0xc4)
	d.U16(be, 31, "", "")
	d.B = append(d.B, make([]byte, 29)...)
	d.Bytes(0xff, 0xda, 0x00, 0x0c, 3, 1, 0, 2, 0x11, 3, 0x11, 0, 0x3f, 0)
	for i := 0; i < 96; i++ {
		d.Bytes(byte(0x11 + i*7))
		if i%13 == 5 {
			d.Bytes(0xff, 0x00) // stuffed byte
		}
	}
	d.Bytes(0xff, 0xd9)
	return d, out
}

// ---------------------------------------------------------------------------
// PNG

type Chunk struct {
	Type string
	Data []byte
	Sub  *Doc
}

func pngChunk(d *Doc, c Chunk, i int) (dataOff int) {
	d.U32(be, uint32(len(c.Data)), fmt.Sprintf("png.chunk%d(%s).length", i, c.Type), "len32")
	start := len(d.B)
	d.Str(c.Type)
	dataOff = len(d.B)
	if c.Sub != nil {
		d.Append(c.Sub, fmt.Sprintf("png.chunk%d", i))
	} else {
		d.B = append(d.B, c.Data...)
	}
	d.U32(be, crc32.ChecksumIEEE(d.B[start:]), "", "")
	return
}

// BuildPNG writes signature, IHDR, before..., eXIf(payload), after..., IDAT, IEND.
// exifAt is returned: the offset of the eXIf chunk data.
func BuildPNG(before []Chunk, exif *Doc, after []Chunk) (*Doc, int) {
	d := &Doc{}
	d.Str("\x89PNG\r\n\x1a\n")
	i := 0
	pngChunk(d, Chunk{Type: "IHDR", Data: []byte{0, 0, 0, 16, 0, 0, 0, 16, 8, 2, 0, 0, 0}}, i)
	i++
	for _, c := range before {
		pngChunk(d, c, i)
		i++
	}
	exifAt := -1
	if exif != nil {
		exifAt = pngChunk(d, Chunk{Type: "eXIf", Data: exif.B, Sub: exif}, i)
		i++
	}
	for _, c := range after {
		pngChunk(d, c, i)
		i++
	}
	idat := make([]byte, 80)
	for k := range idat {
		idat[k] = byte(k*31 + 7)
	}
	pngChunk(d, Chunk{Type: "IDAT", Data: idat}, i)
	pngChunk(d, Chunk{Type: "IEND"}, i+1)
	return d, exifAt
}

// BuildPNGLate writes signature, IHDR, before..., IDAT, IDAT, eXIf(payload), after..., IEND:
// the eXIf chunk after the image data, which the PNG extension allows.
func BuildPNGLate(before []Chunk, exif *Doc, after []Chunk) (*Doc, int) {
	d := &Doc{}
	d.Str("\x89PNG\r\n\x1a\n")
	i := 0
	pngChunk(d, Chunk{Type: "IHDR", Data: []byte{0, 0, 0, 16, 0, 0, 0, 16, 8, 2, 0, 0, 0}}, i)
	i++
	for _, c := range before {
		pngChunk(d, c, i)
		i++
	}
	idat := make([]byte, 80)
	for k := range idat {
		idat[k] = byte(k*29 + 3)
	}
	pngChunk(d, Chunk{Type: "IDAT", Data: idat}, i)
	pngChunk(d, Chunk{Type: "IDAT", Data: idat[:33]}, i+1)
	i += 2
	exifAt := pngChunk(d, Chunk{Type: "eXIf", Data: exif.B, Sub: exif}, i)
	i++
	for _, c := range after {
		pngChunk(d, c, i)
		i++
	}
	pngChunk(d, Chunk{Type: "IEND"}, i)
	return d, exifAt
}

// ---------------------------------------------------------------------------
// ISOBMFF

// Box is a node of a box tree.
type Box struct {
	Type     string
	UUID     []byte // for Type == "uuid"
	Full     bool   // has version/flags
	Version  uint8
	Flags    uint32
	Large    bool // 64-bit size form
	Payload  *Doc // raw payload (after header/fullbox header/uuid), before children
	Children []*Box
	Tail     []byte // bytes after the children
	// SizeDelta is added to the declared size (malformation by construction).
	SizeDelta int64

	// set by Encode
	Start, PayloadStart, End int
	Path                     string
}

func (b *Box) size() int {
	n := 8
	if b.Large {
		n = 16
	}
	if b.Type == "uuid" {
		n += len(b.UUID) // 16; shorter (or none) for a uuid box that is too short to hold its usertype
	}
	if b.Full {
		n += 4
	}
	if b.Payload != nil {
		n += len(b.Payload.B)
	}
	for _, c := range b.Children {
		n += c.size()
	}
	return n + len(b.Tail)
}

func (b *Box) encode(d *Doc, path string) {
	b.Path = path + "/" + b.Type
	b.Start = len(d.B)
	sz := int64(b.size()) + b.SizeDelta
	if b.Large {
		d.U32(be, 1, "", "")
		d.Str(b.Type)
		d.U64(be, uint64(sz), b.Path+".size64", "size64")
	} else {
		d.U32(be, uint32(sz), b.Path+".size", "size32")
		d.Str(b.Type)
	}
	if b.Type == "uuid" {
		d.B = append(d.B, b.UUID...)
	}
	if b.Full {
		d.U8(b.Version, b.Path+".version", "ver8")
		d.Bytes(byte(b.Flags>>16), byte(b.Flags>>8), byte(b.Flags))
	}
	b.PayloadStart = len(d.B)
	if b.Payload != nil {
		d.Append(b.Payload, b.Path)
	}
	for i, c := range b.Children {
		c.encode(d, fmt.Sprintf("%s[%d]", b.Path, i))
	}
	d.B = append(d.B, b.Tail...)
	b.End = len(d.B)
}

// EncodeBoxes serialises top-level boxes.
func EncodeBoxes(top []*Box) *Doc {
	d := &Doc{}
	for i, b := range top {
		b.encode(d, fmt.Sprintf("[%d]", i))
	}
	return d
}

// Walk visits every box.
func Walk(top []*Box, f func(b *Box, depth int)) {
	var rec func(b *Box, depth int)
	rec = func(b *Box, depth int) {
		f(b, depth)
		for _, c := range b.Children {
			rec(c, depth+1)
		}
	}
	for _, b := range top {
		rec(b, 0)
	}
}

func raw(b []byte) *Doc { return &Doc{B: b} }

var (
	UUIDCr3Meta    = []byte{0x85, 0xc0, 0xb6, 0x87, 0x82, 0x0f, 0x11, 0xe0, 0x81, 0x11, 0xf4, 0xce, 0x46, 0x2b, 0x6a, 0x48}
	UUIDCr3XPacket = []byte{0xbe, 0x7a, 0xcf, 0xcb, 0x97, 0xa9, 0x42, 0xe8, 0x9c, 0x71, 0x99, 0x94, 0x91, 0xe3, 0xaf, 0xac}
	UUIDCr3Preview = []byte{0xea, 0xf4, 0x2b, 0x5e, 0x1c, 0x98, 0x4b, 0x88, 0xb9, 0xfb, 0xb7, 0xdc, 0x40, 0x6e, 0x4d, 0x16}
	UUIDOther      = []byte{0x11, 0x22, 0x33, 0x44, 0x55, 0x66, 0x77, 0x88, 0x99, 0xaa, 0xbb, 0xcc, 0xdd, 0xee, 0xff, 0x00}
)

func Ftyp(major string, minor uint32, compat ...string) *Box {
	d := &Doc{}
	d.Str(major)
	d.U32(be, minor, "", "")
	for _, c := range compat {
		d.Str(c)
	}
	return &Box{Type: "ftyp", Payload: d}
}

func emptyTIFF() *Doc {
	return raw([]byte("II*\x00\x08\x00\x00\x00\x00\x00\x00\x00\x00\x00"))
}

// CR3Parts are the payloads of a generated CR3 file.
type CR3Parts struct {
	CMT1, CMT2, CMT3, CMT4 *Doc
	XPacket                []byte
	Preview                []byte
}

// PRVWBox builds the uuid-preview content: 8 bytes, then a PRVW box whose
// payload is a 16-byte header (width/height at 6..10, size at 12..16) and the JPEG.
func PRVWBox(jpeg []byte) *Box {
	d := &Doc{}
	d.Bytes(0, 0, 0, 0, 0, 1) // 6 bytes: unknown/flags/index
	d.U16(be, 1620, "prvw.width", "val16")
	d.U16(be, 1080, "prvw.height", "val16")
	d.Bytes(0, 1)
	d.U32(be, uint32(len(jpeg)), "prvw.jpeg-size", "len32")
	d.B = append(d.B, jpeg...)
	return &Box{Type: "PRVW", Payload: d}
}

// CR3 builds the canonical Canon CR3 skeleton.
// extra: 0 none, 1 a 'free' box between moov and xpacket, 2 an unknown 'zzzz' box there,
// 3 extra unknown children inside the metadata uuid, 4 64-bit sizes for uuid boxes,
// 5 / 6 / 7 64-bit size form for the free box before CMT1 / CMT1 / CMT2, CMT4 and moov.
func CR3(p CR3Parts, extra int) []*Box {
	cncv := &Box{Type: "CNCV", Payload: raw([]byte("CanonCR3_001/00.11.00/00.00.00"))}
	cctp := &Box{Type: "CCTP", Payload: raw([]byte{0, 0, 0, 0, 0, 0, 0, 1, 0, 0, 0, 3}), Children: []*Box{
		{Type: "CCDT", Payload: raw(make([]byte, 16))}, {Type: "CCDT", Payload: raw(make([]byte, 16))},
	}}
	ctboD := &Doc{}
	ctboD.U32(be, 4, "ctbo.count", "count32")
	for i := 1; i <= 4; i++ {
		ctboD.U32(be, uint32(i), fmt.Sprintf("ctbo.item%d.index", i), "val32")
		ctboD.U64(be, uint64(1000*i), "", "")
		ctboD.U64(be, uint64(100*i), "", "")
	}
	ctbo := &Box{Type: "CTBO", Payload: ctboD}
	meta := &Box{Type: "uuid", UUID: UUIDCr3Meta, Children: []*Box{cncv, cctp, ctbo,
		{Type: "free", Payload: raw(make([]byte, 2))},
		{Type: "CMT1", Payload: p.CMT1}, {Type: "CMT2", Payload: p.CMT2}, {Type: "CMT3", Payload: p.CMT3}, {Type: "CMT4", Payload: p.CMT4},
		{Type: "THMB", Payload: raw(append([]byte{0, 0, 0, 0, 0, 160, 0, 120, 0, 0, 0, 10, 0, 1, 0, 0}, []byte("\xff\xd8\xff\xdb\x00\x04\x00\x00\xff\xd9")...))},
	}}
	if extra == 3 {
		meta.Children = append([]*Box{{Type: "zzzz", Payload: raw([]byte("unknown child with II*\x00 inside"))}}, meta.Children...)
		meta.Children = append(meta.Children, &Box{Type: "yyyy", Payload: raw(make([]byte, 5))})
	}
	switch extra { // other orders of the children of the metadata uuid box (the box format fixes none)
	case 9: // the thumbnail first
		c := meta.Children
		meta.Children = append([]*Box{c[len(c)-1]}, c[:len(c)-1]...)
	case 10: // the four CMT boxes first, Canon's own boxes behind them
		c := meta.Children
		meta.Children = []*Box{c[4], c[5], c[6], c[7], c[8], c[0], c[1], c[2], c[3]}
	case 11: // interleaved
		c := meta.Children
		meta.Children = []*Box{c[4], c[8], c[5], c[0], c[6], c[1], c[3], c[7], c[2]}
	}
	mvhd := &Box{Type: "mvhd", Full: true, Payload: raw(make([]byte, 96))}
	trak := &Box{Type: "trak", Children: []*Box{{Type: "tkhd", Full: true, Payload: raw(make([]byte, 80))},
		{Type: "mdia", Children: []*Box{{Type: "mdhd", Full: true, Payload: raw(make([]byte, 20))}, {Type: "hdlr", Full: true, Payload: raw([]byte("\x00\x00\x00\x00vide\x00\x00\x00\x00\x00\x00\x00\x00\x00\x00\x00\x00\x00"))}}}}}
	moov := &Box{Type: "moov", Children: []*Box{meta, mvhd, trak}}
	xp := &Box{Type: "uuid", UUID: UUIDCr3XPacket, Payload: raw(p.XPacket)}
	pv := &Box{Type: "uuid", UUID: UUIDCr3Preview, Payload: raw([]byte{0, 0, 0, 0, 0, 0, 0, 1}), Children: []*Box{PRVWBox(p.Preview)}}
	mdat := &Box{Type: "mdat", Payload: raw(make([]byte, 64))}
	if extra == 4 {
		meta.Large, xp.Large, pv.Large = true, true, true
	}
	switch extra { // 64-bit size form for boxes nested inside the metadata uuid / for moov itself
	case 5:
		meta.Children[3].Large = true // the free box before CMT1
	case 6:
		meta.Children[4].Large = true // CMT1
	case 7:
		meta.Children[5].Large, meta.Children[7].Large, moov.Large = true, true, true // CMT2, CMT4, moov
	}
	top := []*Box{Ftyp("crx ", 1, "crx ", "isom"), moov}
	if extra == 8 { // a long list of compatible brands
		top[0] = Ftyp("crx ", 1, "crx ", "isom", "mif1", "iso2", "miaf", "heic", "avif", "msf1", "iso4", "iso5", "iso6", "mp41")
	}
	switch extra {
	case 1:
		top = append(top, &Box{Type: "free", Payload: raw(make([]byte, 24))})
	case 2:
		top = append(top, &Box{Type: "zzzz", Payload: raw([]byte("an unknown top-level box"))})
	}
	top = append(top, xp, pv, mdat)
	return top
}

// CR3FromRecord splits rec over the CMT boxes.
func CR3FromRecord(rec *Rec, lay Layout, bo binary.ByteOrder) CR3Parts {
	return CR3Parts{
		CMT1:    EncodeTIFF(rec, lay, bo, []int{DirIFD0}),
		CMT2:    EncodeTIFF(rec, lay, bo, []int{DirExif}),
		CMT3:    emptyTIFF(),
		CMT4:    EncodeTIFF(rec, lay, bo, []int{DirGPS}),
		XPacket: []byte("<?xpacket begin='' id='W5M0MpCehiHzreSzNTczkc9d'?><x:xmpmeta xmlns:x=\"adobe:ns:meta/\"><rdf:RDF xmlns:rdf=\"http://www.w3.org/1999/02/22-rdf-syntax-ns#\"><rdf:Description rdf:about=\"\" xmlns:xmp=\"http://ns.adobe.com/xap/1.0/\" xmp:Rating=\"3\"/></rdf:RDF></x:xmpmeta><?xpacket end='w'?>"),
		Preview: []byte("\xff\xd8\xff\xdb\x00\x04\x00\x00preview-image-data-0123456789\xff\xd9"),
	}
}

// HEIF builds ftyp(heic) + meta + mdat holding "Exif\0\0" + TIFF.
// variant: 0 heic major; 1 mif1 major with heic compatible brand.
func HEIF(tiff *Doc, variant int) []*Box {
	ft := Ftyp("heic", 0, "mif1", "heic")
	if variant == 1 {
		ft = Ftyp("mif1", 0, "mif1", "heic")
	}
	hdlr := &Box{Type: "hdlr", Full: true, Payload: raw([]byte("\x00\x00\x00\x00pict\x00\x00\x00\x00\x00\x00\x00\x00\x00\x00\x00\x00\x00"))}
	pitm := &Box{Type: "pitm", Full: true, Payload: raw([]byte{0, 1})}
	meta := &Box{Type: "meta", Full: true, Children: []*Box{hdlr, pitm}}
	md := &Doc{}
	md.B = append(md.B, make([]byte, 40)...) // coded image bytes
	md.U32(be, 6, "", "")
	md.Str(ExifPrefix)
	md.Append(tiff, "heif")
	md.B = append(md.B, make([]byte, 32)...)
	mdat := &Box{Type: "mdat", Payload: md}
	return []*Box{ft, meta, mdat}
}
