package gen

import (
	"fmt"
	"regexp"
	"strings"
)

// XMP property kinds
const (
	XString = iota
	XInt
	XRational
	XBias
	XDate
	XUUID
	XFloat
	XFormat
)

// XPropSpec is one supported simple XMP property.
type XPropSpec struct {
	NS, Name string
	Kind     int
	Field    string   // path in xmp.XMP
	Menu     []string // menu[0] is the default value
	Bits     int      // integer width of the target field
	label    string
}

// XArrSpec is one supported array property.
type XArrSpec struct {
	NS, Name  string
	Container string // Seq / Bag / Alt
	Field     string
	Lang      bool // items carry xml:lang
	Defaults  []string
}

var nsURI = map[string]string{
	"tiff":  "http://ns.adobe.com/tiff/1.0/",
	"exif":  "http://ns.adobe.com/exif/1.0/",
	"aux":   "http://ns.adobe.com/exif/1.0/aux/",
	"xmp":   "http://ns.adobe.com/xap/1.0/",
	"xap":   "http://ns.adobe.com/xap/1.0/",
	"xmpMM": "http://ns.adobe.com/xap/1.0/mm/",
	"xapMM": "http://ns.adobe.com/xap/1.0/mm/",
	"crs":   "http://ns.adobe.com/camera-raw-settings/1.0/",
	"dc":    "http://purl.org/dc/elements/1.1/",
	"lr":    "http://ns.adobe.com/lightroom/1.0/",
	"zz":    "http://example.org/unknown/1.0/",
}

const uuidA = "6ba7b810-9dad-11d1-80b4-00c04fd430c8"
const uuidB = "00112233-4455-6677-8899-aabbccddeeff"

// XProps is the table of supported simple properties.
var XProps = []XPropSpec{
	{NS: "tiff", Name: "Make", Kind: XString, Field: "Tiff.Make", Menu: []string{"VerifCam Corp", "C", "Canon"}},
	{NS: "tiff", Name: "Model", Kind: XString, Field: "Tiff.Model", Menu: []string{"Model X-1", "M"}},
	{NS: "tiff", Name: "ImageWidth", Kind: XInt, Bits: 16, Field: "Tiff.ImageWidth", Menu: []string{"6000", "1", "65535", "0", "65534"}},
	{NS: "tiff", Name: "ImageLength", Kind: XInt, Bits: 16, Field: "Tiff.ImageLength", Menu: []string{"4000", "65535"}},
	{NS: "tiff", Name: "Orientation", Kind: XInt, Bits: 16, Field: "Tiff.Orientation", Menu: []string{"6", "1", "8"}},
	{NS: "exif", Name: "PixelXDimension", Kind: XInt, Bits: 32, Field: "Exif.PixelXDimension", Menu: []string{"5999", "4294967294", "255", "256"}},
	{NS: "exif", Name: "PixelYDimension", Kind: XInt, Bits: 32, Field: "Exif.PixelYDimension", Menu: []string{"3999", "1"}},
	{NS: "exif", Name: "DateTimeOriginal", Kind: XDate, Field: "Exif.DateTimeOriginal", Menu: []string{"2023-06-15T12:34:56+02:00", "2023-06-15T12:34:56", "2023-06-15T12:34:56.78", "1970-01-01T00:00:00Z", "2023-06-15T12:34:56-09:30", "2023-06-15T12:34:56.5", "2023-06-15T12:34:56.123", "2023-06-15T12:34:56.123456", "2023-06-15T12:34:56.25Z", "2023-06-15T12:34:56.25+01:00", "2023-06-15T12:34:56.123-09:30"}},
	{NS: "exif", Name: "ExposureTime", Kind: XRational, Field: "Exif.ExposureTime", Menu: []string{"1/250", "30/1", "1/8000", "1/3"}},
	{NS: "exif", Name: "ExposureProgram", Kind: XInt, Bits: 8, Field: "Exif.ExposureProgram", Menu: []string{"2", "0", "9"}},
	{NS: "exif", Name: "ExposureMode", Kind: XInt, Bits: 8, Field: "Exif.ExposureMode", Menu: []string{"1", "0", "2"}},
	{NS: "exif", Name: "ExposureBiasValue", Kind: XBias, Field: "Exif.ExposureBias", Menu: []string{"-1/3", "2/3", "+1/3", "-2/1", "1/2"}},
	{NS: "exif", Name: "FocalLength", Kind: XRational, Field: "Exif.FocalLength", Menu: []string{"50/1", "24/10", "1/3"}},
	{NS: "exif", Name: "SubjectDistance", Kind: XRational, Field: "Exif.SubjectDistance", Menu: []string{"35/10", "1/1"}},
	{NS: "exif", Name: "MeteringMode", Kind: XInt, Bits: 8, Field: "Exif.MeteringMode", Menu: []string{"5", "0", "6", "255"}},
	{NS: "exif", Name: "FNumber", Kind: XRational, Field: "Exif.Aperture", Menu: []string{"28/10", "22/1", "1/1"}},
	{NS: "exif", Name: "GPSLatitude", Kind: XFloat, Field: "Exif.GPSLatitude", Menu: []string{"47.375", "-33.8568", "0.5"}},
	{NS: "exif", Name: "GPSLongitude", Kind: XFloat, Field: "Exif.GPSLongitude", Menu: []string{"8.5417", "-151.2153"}},
	{NS: "exif", Name: "GPSAltitude", Kind: XFloat, Bits: 32, Field: "Exif.GPSAltitude", Menu: []string{"408.25", "-12.5"}},
	{NS: "aux", Name: "SerialNumber", Kind: XString, Field: "Aux.SerialNumber", Menu: []string{"SN-0042", "7"}},
	{NS: "aux", Name: "Lens", Kind: XString, Field: "Aux.Lens", Menu: []string{"VL 24-70mm f/2.8", "L", "  padded lens name  ", "a > b/>c", ">starts with gt", "/>starts like an empty-element end"}},
	{NS: "aux", Name: "LensInfo", Kind: XString, Field: "Aux.LensInfo", Menu: []string{"24/1 70/1 28/10 28/10"}},
	{NS: "aux", Name: "LensID", Kind: XInt, Bits: 32, Field: "Aux.LensID", Menu: []string{"198", "4294967294", "4294967295"}},
	{NS: "aux", Name: "LensSerialNumber", Kind: XString, Field: "Aux.LensSerialNumber", Menu: []string{"LSN-9"}},
	{NS: "aux", Name: "ImageNumber", Kind: XInt, Bits: 16, Field: "Aux.ImageNumber", Menu: []string{"1234", "65535"}},
	{NS: "aux", Name: "FlashCompensation", Kind: XBias, Field: "Aux.FlashCompensation", Menu: []string{"-2/3", "1/1"}},
	{NS: "xmp", Name: "CreateDate", Kind: XDate, Field: "Basic.CreateDate", Menu: []string{"2023-06-15T12:34:51+09:00", "2023-06-15T12:34:51", "2023-06-15T12:34:51.7", "2023-06-15T12:34:51.75Z"}},
	{NS: "xmp", Name: "CreatorTool", Kind: XString, Field: "Basic.CreatorTool", Menu: []string{"Verif Tool 1.0 (Linux)", "T", "trailing blank ", " leading blank"}},
	{NS: "xmp", Name: "Label", Kind: XString, Field: "Basic.Label", Menu: []string{"Select", "R", " "}},
	{NS: "xmp", Name: "MetadataDate", Kind: XDate, Field: "Basic.MetadataDate", Menu: []string{"2023-06-16T08:00:00Z", "2023-06-16T08:00:00.50", "2023-06-16T08:00:00.5+02:00", "2023-06-16T08:00:00.123456789Z"}},
	{NS: "xmp", Name: "ModifyDate", Kind: XDate, Field: "Basic.ModifyDate", Menu: []string{"2023-06-15T12:34:56-05:00", "2023-06-15T12:34:56.999-05:00"}},
	{NS: "xmp", Name: "Rating", Kind: XInt, Bits: 8, Field: "Basic.Rating", Menu: []string{"3", "0", "5", "-1", "1"}},
	{NS: "xmpMM", Name: "DocumentID", Kind: XUUID, Field: "MM.DocumentID", Menu: []string{"xmp.did:" + uuidA, "uuid:" + uuidB, uuidA, "xmp.did:" + strings.ToUpper(uuidB), "xmp.did:" + strings.ReplaceAll(uuidA, "-", "")}},
	{NS: "xmpMM", Name: "OriginalDocumentID", Kind: XUUID, Field: "MM.OriginalDocumentID", Menu: []string{"xmp.did:" + uuidB}},
	{NS: "xmpMM", Name: "InstanceID", Kind: XUUID, Field: "MM.InstanceID", Menu: []string{"xmp.iid:" + uuidA, "uuid:" + uuidA, "urn:uuid:" + uuidB}},
	{NS: "xmpMM", Name: "PreservedFileName", Kind: XString, Field: "MM.PreservedFileName", Menu: []string{"IMG_0042.CR3", "a"}},
	{NS: "crs", Name: "RawFileName", Kind: XString, Field: "CRS.RawFileName", Menu: []string{"IMG_0042.CR3", "r"}},
	{NS: "dc", Name: "format", Kind: XFormat, Field: "DC.Format", Menu: []string{"image/jpeg", "image/x-canon-cr3", "image/tiff"}},
}

// XArrs is the table of supported array properties.
var XArrs = []XArrSpec{
	{NS: "dc", Name: "creator", Container: "Seq", Field: "DC.Creator", Defaults: []string{"Ada Lovelace", "Charles Babbage", "G"}},
	{NS: "dc", Name: "subject", Container: "Bag", Field: "DC.Subject", Defaults: []string{"engine", "analytical ", " k"}},
	{NS: "dc", Name: "rights", Container: "Alt", Field: "DC.Rights", Lang: true, Defaults: []string{"(c) 2023 Verif", "all rights", "r"}},
	{NS: "dc", Name: "title", Container: "Alt", Field: "DC.Title", Lang: true, Defaults: []string{"A Title", "Ein Titel", "t"}},
	{NS: "dc", Name: "description", Container: "Alt", Field: "DC.Description", Lang: true, Defaults: []string{"A description of the picture", "Eine Beschreibung", "d"}},
	{NS: "exif", Name: "ISOSpeedRatings", Container: "Seq", Field: "Exif.ISOSpeedRatings", Defaults: []string{"100"}},
}

func init() {
	for i := range XProps {
		XProps[i].label = "xmp." + XProps[i].NS + ":" + XProps[i].Name
	}
}

// XProp is a property of a logical XMP record.
type XProp struct {
	Spec  *XPropSpec
	Value string
	Form  int // 0 attribute, 1 element
}

// XArr is an array property of a logical XMP record.
type XArr struct {
	Spec  *XArrSpec
	Items []string
}

// XRec is the logical record.
type XRec struct {
	Props  []XProp
	Arrays []XArr
}

// XStyle are the serialisation choices.
type XStyle struct {
	Quote     int // 0 ", 1 '
	WS        int // white space between attributes
	Junk      int // leading junk
	Unknown   int // unknown properties / namespaces interleaved
	Split     int // 1: second rdf:Description holds the second half
	AltPrefix int // 1: xap / xapMM prefixes
	Swap      int // k>0: swap properties k-1 and k
	Indent    int // white space between elements
	CloseWS   int // white space before the closing '>' of start tags
	Eq        int // white space around the '=' of attributes
	ItemLang  int // 1: items of Seq / Bag arrays carry an xml:lang qualifier too
	Container int // k>0: arrays are written in another of the three RDF containers (Seq -> Bag -> Alt -> Seq, k steps)
	EndWS     int // white space before the '>' of end tags (ETag ::= '</' Name S? '>')
}

var WSMenu = []string{"\n   ", " ", "\n\n", "  \n ", "\t", "\r\n   ", strings.Repeat(" ", 37), strings.Repeat(" ", 130), strings.Repeat(" ", 600)}
var indentMenu = []string{"\n  ", "", " ", "\n\n\n", strings.Repeat(" ", 130), "\r\n\t", strings.Repeat(" ", 511), strings.Repeat(" ", 512), strings.Repeat(" ", 513), strings.Repeat(" ", 600)}

func init() {
	// blank runs around the multiples of the reader's 128-byte look-ahead step
	for _, r := range [][2]int{{100, 135}, {228, 262}, {356, 390}} {
		for n := r[0]; n <= r[1]; n++ {
			WSMenu = append(WSMenu, strings.Repeat(" ", n))
			indentMenu = append(indentMenu, strings.Repeat(" ", n))
		}
	}
}

var endWSMenu = []string{"", " ", "\n", "\t  "}
var endTagRe = regexp.MustCompile(`</([A-Za-z][A-Za-z0-9:._-]*)>`)

var eqMenu = []string{"=", " = ", "= ", " =", "\n=\n"}

const nJunk = 5 + 5 + 24

// ChooseXRec: every property present at default; deviations pick another value,
// drop the property, or switch it to element form.
func ChooseXRec(x Chooser) *XRec {
	rec := &XRec{}
	for i := range XProps {
		s := &XProps[i]
		n := len(s.Menu)
		// options: 0 default(attr) | 1..n-1 other values(attr) | n default as element | n+1 absent
		c := x.Choose(s.label, n+2)
		switch {
		case c < n:
			rec.Props = append(rec.Props, XProp{Spec: s, Value: s.Menu[c]})
		case c == n:
			rec.Props = append(rec.Props, XProp{Spec: s, Value: s.Menu[0], Form: 1})
		}
	}
	for i := range XArrs {
		s := &XArrs[i]
		// options: 0 two items | 1 one item | 2 three items | 3 absent | 4 empty container
		c := x.Choose("xmp."+s.NS+":"+s.Name+".items", 5)
		switch c {
		case 0:
			k := 2
			if len(s.Defaults) < 2 {
				k = 1
			}
			rec.Arrays = append(rec.Arrays, XArr{Spec: s, Items: s.Defaults[:k]})
		case 1:
			rec.Arrays = append(rec.Arrays, XArr{Spec: s, Items: s.Defaults[:1]})
		case 2:
			rec.Arrays = append(rec.Arrays, XArr{Spec: s, Items: s.Defaults})
		case 4:
			rec.Arrays = append(rec.Arrays, XArr{Spec: s, Items: nil})
		}
	}
	return rec
}

// ChooseXStyle picks the serialisation style.
func ChooseXStyle(x Chooser, nprops int) XStyle {
	st := XStyle{
		Quote:     x.Choose("xmp.quote", 2),
		WS:        x.Choose("xmp.attr-space", len(WSMenu)),
		Junk:      x.Choose("xmp.leading-junk", nJunk),
		Unknown:   x.Choose("xmp.unknown-props", 4),
		Split:     x.Choose("xmp.second-description", 2),
		AltPrefix: x.Choose("xmp.xap-prefixes", 2),
		Indent:    x.Choose("xmp.element-space", len(indentMenu)),
		CloseWS:   x.Choose("xmp.space-before-close", 3),
		Eq:        x.Choose("xmp.space-around-equals", len(eqMenu)),
		ItemLang:  x.Choose("xmp.lang-qualifier-on-list-items", 2),
		Container: x.Choose("xmp.other-rdf-container", 3),
		EndWS:     x.Choose("xmp.space-inside-end-tags", len(endWSMenu)),
	}
	if nprops > 1 {
		st.Swap = x.Choose("xmp.swap-neighbours", nprops)
	}
	if x.Choose("xmp.all-elements", 2) == 1 {
		st.Quote |= 0x100
	}
	return st
}

func esc(s string) string { return s } // value domains avoid characters that need entities

// Serialize writes the packet.
func (rec *XRec) Serialize(st XStyle) []byte {
	allElem := st.Quote&0x100 != 0
	q := []string{"\"", "'"}[st.Quote&1]
	ws := WSMenu[st.WS]
	ind := indentMenu[st.Indent]
	prefix := func(ns string) string {
		if st.AltPrefix == 1 {
			switch ns {
			case "xmp":
				return "xap"
			case "xmpMM":
				return "xapMM"
			}
		}
		return ns
	}
	props := append([]XProp{}, rec.Props...)
	if st.Swap > 0 && st.Swap < len(props) {
		props[st.Swap-1], props[st.Swap] = props[st.Swap], props[st.Swap-1]
	}
	var sb strings.Builder
	switch st.Junk {
	case 1:
		sb.WriteString("<?xpacket begin=\"\xef\xbb\xbf\" id=\"W5M0MpCehiHzreSzNTczkc9d\"?>\n")
	case 2:
		sb.WriteString("\xef\xbb\xbf")
	case 3:
		sb.WriteString(strings.Repeat("junk < with <x:xmp lookalikes <x:xmpmet ", 8))
	case 4:
		sb.WriteString(strings.Repeat(" ", 5000))
	case 5:
		sb.WriteString("<!--c-->")
	case 6:
		sb.WriteString("<?x?>\n")
	case 7:
		sb.WriteString("a < b\n")
	case 8:
		sb.WriteString("<<")
	case 9:
		sb.WriteString("<x:xmpmet")
	default:
		if st.Junk >= 10 { // a single '<' at every distance 1..24 before the root element
			sb.WriteString("<" + strings.Repeat("j", st.Junk-10))
		}
	}
	sb.WriteString("<x:xmpmeta xmlns:x=" + q + "adobe:ns:meta/" + q + " x:xmptk=" + q + "Verif XMP Core 1.0" + q + ">" + ind)
	sb.WriteString("<rdf:RDF xmlns:rdf=" + q + "http://www.w3.org/1999/02/22-rdf-syntax-ns#" + q + ">" + ind)
	writeDesc := func(ps []XProp, arrs []XArr, unknown int) {
		sb.WriteString("<rdf:Description rdf:about=" + q + q)
		used := map[string]bool{}
		for _, p := range ps {
			used[prefix(p.Spec.NS)] = true
		}
		for _, a := range arrs {
			used[a.Spec.NS] = true
		}
		if unknown > 0 {
			used["zz"] = true
			used["lr"] = true
		}
		for _, ns := range []string{"tiff", "exif", "aux", "xmp", "xap", "xmpMM", "xapMM", "crs", "dc", "lr", "zz"} {
			if used[ns] {
				sb.WriteString(ws + "xmlns:" + ns + "=" + q + nsURI[ns] + q)
			}
		}
		nattr := 0
		for i, p := range ps {
			if p.Form == 0 && !allElem {
				sb.WriteString(ws + prefix(p.Spec.NS) + ":" + p.Spec.Name + eqMenu[st.Eq] + q + esc(p.Value) + q)
				nattr++
				if unknown == 1 && i%5 == 2 {
					sb.WriteString(ws + "zz:Unknown" + fmt.Sprint(i) + "=" + q + "unknown value " + fmt.Sprint(i) + q)
				}
				if unknown == 3 && i%7 == 3 {
					sb.WriteString(ws + "lr:weightedFlatSubject=" + q + "a|b|c" + q)
				}
			}
		}
		sb.WriteString([]string{"", " ", "\n  "}[st.CloseWS] + ">" + ind)
		for i, p := range ps {
			if p.Form == 1 || allElem {
				n := prefix(p.Spec.NS) + ":" + p.Spec.Name
				sb.WriteString("<" + n + ">" + esc(p.Value) + "</" + n + ">" + ind)
				if unknown == 2 && i%4 == 1 {
					sb.WriteString("<zz:Other>something else</zz:Other>" + ind)
				}
			}
		}
		if unknown == 2 {
			sb.WriteString("<zz:List>" + ind + "<rdf:Bag>" + ind + "<rdf:li>u1</rdf:li>" + ind + "<rdf:li>u2</rdf:li>" + ind + "</rdf:Bag>" + ind + "</zz:List>" + ind)
		}
		for _, a := range arrs {
			n := a.Spec.NS + ":" + a.Spec.Name
			cont := a.Spec.Container
			for k := 0; k < st.Container; k++ {
				cont = map[string]string{"Seq": "Bag", "Bag": "Alt", "Alt": "Seq"}[cont]
			}
			sb.WriteString("<" + n + ">" + ind + "<rdf:" + cont + ">" + ind)
			for k, it := range a.Items {
				if a.Spec.Lang {
					lang := "x-default"
					if k > 0 {
						lang = "de-DE"
					}
					sb.WriteString("<rdf:li xml:lang=" + q + lang + q + ">" + esc(it) + "</rdf:li>" + ind)
				} else if st.ItemLang == 1 && a.Spec.NS == "dc" {
					sb.WriteString("<rdf:li xml:lang=" + q + "x-default" + q + ">" + esc(it) + "</rdf:li>" + ind)
				} else {
					sb.WriteString("<rdf:li>" + esc(it) + "</rdf:li>" + ind)
				}
			}
			sb.WriteString("</rdf:" + cont + ">" + ind + "</" + n + ">" + ind)
		}
		sb.WriteString("</rdf:Description>" + ind)
	}
	if st.Split == 1 && len(props) > 1 {
		h := len(props) / 2
		writeDesc(props[:h], nil, st.Unknown)
		writeDesc(props[h:], rec.Arrays, st.Unknown)
	} else {
		writeDesc(props, rec.Arrays, st.Unknown)
	}
	sb.WriteString("</rdf:RDF>" + ind + "</x:xmpmeta>")
	if st.Junk == 1 {
		sb.WriteString("\n<?xpacket end=\"w\"?>")
	}
	if st.EndWS > 0 { // values are escaped, so "</" only starts end tags
		return endTagRe.ReplaceAll([]byte(sb.String()), []byte("</$1"+endWSMenu[st.EndWS]+">"))
	}
	return []byte(sb.String())
}

// Describe prints the record.
func (rec *XRec) Describe() string {
	var sb strings.Builder
	for _, p := range rec.Props {
		fmt.Fprintf(&sb, "%s:%s=%q(%d) ", p.Spec.NS, p.Spec.Name, p.Value, p.Form)
	}
	for _, a := range rec.Arrays {
		fmt.Fprintf(&sb, "%s:%s=%q ", a.Spec.NS, a.Spec.Name, a.Items)
	}
	return sb.String()
}
