package gen

import (
	"encoding/binary"
	"fmt"
	"math"
	"sort"
	"strings"
)

// TIFF types
const (
	TByte      = 1
	TASCII     = 2
	TShort     = 3
	TLong      = 4
	TRational  = 5
	TUndefined = 7
	TSRational = 10
	TSShort    = 8
	TSLong     = 9
	TFloat     = 11
	TDouble    = 12
	TSByte     = 6  // a type the library does not decode (TIFF 6.0: readers skip fields of unknown type)
	TIFD       = 13 // likewise
)

var typeSize = map[uint16]int{1: 1, 2: 1, 3: 2, 4: 4, 5: 8, 6: 1, 7: 1, 8: 2, 9: 4, 10: 8, 11: 4, 12: 8, 13: 4, 0: 1, 14: 1}

// Directories
const (
	DirIFD0 = 0
	DirExif = 1
	DirGPS  = 2
)

var dirName = []string{"ifd0", "exif", "gps"}

// Val is a logical tag value.
type Val struct {
	NoNUL bool // ASCII written without the terminating NUL (count = len)
	Type  uint16
	Str   string      // ASCII without the terminating NUL
	Ints  []uint32    // BYTE / SHORT / LONG / UNDEFINED
	Rats  [][2]uint32 // RATIONAL / SRATIONAL (two's complement)
}

func (v Val) count() uint32 {
	switch v.Type {
	case TASCII:
		if v.NoNUL {
			return uint32(len(v.Str))
		}
		return uint32(len(v.Str) + 1)
	case TRational, TSRational, TDouble:
		return uint32(len(v.Rats))
	}
	return uint32(len(v.Ints))
}

func (v Val) size() int { return int(v.count()) * typeSize[v.Type] }

func (v Val) encode(bo binary.ByteOrder) []byte {
	var out []byte
	switch v.Type {
	case TASCII:
		out = append([]byte(v.Str), 0)
		if v.NoNUL {
			out = []byte(v.Str)
		}
	case TByte, TUndefined, TSByte, 0, 14:
		for _, i := range v.Ints {
			out = append(out, byte(i))
		}
	case TShort, TSShort:
		for _, i := range v.Ints {
			var t [2]byte
			bo.PutUint16(t[:], uint16(i))
			out = append(out, t[:]...)
		}
	case TLong, TSLong, TFloat, TIFD:
		for _, i := range v.Ints {
			var t [4]byte
			bo.PutUint32(t[:], i)
			out = append(out, t[:]...)
		}
	case TRational, TSRational:
		for _, r := range v.Rats {
			var t [8]byte
			bo.PutUint32(t[:], r[0])
			bo.PutUint32(t[4:], r[1])
			out = append(out, t[:]...)
		}
	case TDouble:
		for _, r := range v.Rats {
			var t [8]byte
			bo.PutUint64(t[:], uint64(r[0])<<32|uint64(r[1]))
			out = append(out, t[:]...)
		}
	}
	return out
}

func (v Val) String() string {
	switch v.Type {
	case TASCII:
		if len(v.Str) > 24 {
			return fmt.Sprintf("ASCII[%d]%q...", len(v.Str), v.Str[:24])
		}
		return fmt.Sprintf("ASCII%q", v.Str)
	case TRational, TSRational:
		return fmt.Sprintf("RAT(t%d)%v", v.Type, v.Rats)
	}
	return fmt.Sprintf("INT(t%d)%v", v.Type, v.Ints)
}

func S(s string) Val         { return Val{Type: TASCII, Str: s} }
func Short(v ...uint32) Val  { return Val{Type: TShort, Ints: v} }
func Long(v ...uint32) Val   { return Val{Type: TLong, Ints: v} }
func Byte(v ...uint32) Val   { return Val{Type: TByte, Ints: v} }
func Rat(v ...[2]uint32) Val { return Val{Type: TRational, Rats: v} }
func SRat(n int32, d int32) Val {
	return Val{Type: TSRational, Rats: [][2]uint32{{uint32(n), uint32(d)}}}
}
func r(n, d uint32) [2]uint32  { return [2]uint32{n, d} }
func rep(c byte, n int) string { return strings.Repeat(string(c), n) }
func seqStr(n int) string {
	b := make([]byte, n)
	for i := range b {
		b[i] = byte('A' + i%26)
		if i%7 == 3 {
			b[i] = byte('0' + i%10)
		}
	}
	return string(b)
}

// Entry is one tag of the logical record.
type Entry struct {
	Dir     int
	Tag     uint16
	Name    string
	V       Val
	Foreign bool
}

// Rec is the logical record.
type Rec struct {
	Entries []Entry
}

func (r *Rec) Get(dir int, tag uint16) (Val, bool) {
	for _, e := range r.Entries {
		if e.Dir == dir && e.Tag == tag && !e.Foreign {
			return e.V, true
		}
	}
	return Val{}, false
}

func (r *Rec) Describe() string {
	var sb strings.Builder
	for _, e := range r.Entries {
		fmt.Fprintf(&sb, "%s.%s=%s ", dirName[e.Dir], e.Name, e.V)
	}
	return sb.String()
}

// FieldSpec describes one supported field and its value menu.
type FieldSpec struct {
	Dir           int
	Tag           uint16
	Name          string
	Menu          []Val
	DefaultAbsent bool
	label         string
}

func init() {
	for i := range Fields {
		Fields[i].label = "rec." + Fields[i].Name
		// every rational field also with its default value written over a large denominator (the
		// same number, terms a million or a thousand times larger: products of a term overflow 32 bits)
		if d := Fields[i].Menu[0]; len(d.Rats) > 0 {
			for _, scale := range []uint64{1000000, 1000} {
				ok := true
				for _, q := range d.Rats {
					if uint64(q[0])*scale >= 1<<32 || uint64(q[1])*scale >= 1<<32 {
						ok = false
					}
				}
				if !ok {
					continue
				}
				v := Val{Type: d.Type}
				for _, q := range d.Rats {
					v.Rats = append(v.Rats, [2]uint32{q[0] * uint32(scale), q[1] * uint32(scale)})
				}
				Fields[i].Menu = append(Fields[i].Menu, v)
				break
			}
		}
	}
}

var dates = []string{"2023:06:15 12:34:56", "1970:01:01 00:00:00", "9999:12:31 23:59:59", "2024:02:29 23:59:59"}
var strMenu = func(def string) []Val {
	return []Val{S(def), S("x"), S("ab"), S("abc"), S("abcd"), S(seqStr(19)), S(seqStr(20)), S(seqStr(21)), S(seqStr(255)), S(seqStr(1023)), S(seqStr(4095))}
}
var offMenu = []Val{S("+02:00"), S("-09:30"), S("+00:00"), S("+14:00"), S("-14:00"), S("+05:45")}
var subsecMenu = []Val{S("123"), S("5"), S("12"), S("1234"), S("12345"), S("123456"), S("00"), S("999"), S("050")}

// Fields is the table of supported fields (the C03 list).
var Fields = []FieldSpec{
	{DirIFD0, 0x0100, "ImageWidth", []Val{Short(6000), Long(6000), Short(1), Short(65535), Long(65535)}, false, ""},
	{DirIFD0, 0x0101, "ImageLength", []Val{Short(4000), Long(4000), Short(65535), Long(1)}, false, ""},
	{DirIFD0, 0x010e, "ImageDescription", strMenu("A verification photo"), false, ""},
	{DirIFD0, 0x010f, "Make", []Val{S("Canon"), S("Apple"), S("VerifCam"), S("Q")}, false, ""},
	{DirIFD0, 0x0110, "Model", []Val{S("VerifCam X-1"), S("M"), S("EOS"), S(seqStr(40))}, false, ""},
	{DirIFD0, 0x0111, "StripOffsets", []Val{Long(123456), Long(0xffffffff), Short(5), Long(1), Long(1000, 2000, 3000), Short(7, 8, 9)}, false, ""},
	{DirIFD0, 0x0112, "Orientation", []Val{Short(1), Short(8), Short(6), Short(0), Short(65535)}, false, ""},
	{DirIFD0, 0x0117, "StripByteCounts", []Val{Long(654321), Long(0xffffffff), Short(7), Long(4096, 4096), Short(512, 256)}, false, ""},
	{DirIFD0, 0x0131, "Software", strMenu("VerifWriter 1.0"), false, ""},
	{DirIFD0, 0x0132, "DateTime", []Val{S(dates[0]), S(dates[1]), S(dates[2]), S(dates[3])}, false, ""},
	{DirIFD0, 0x013b, "Artist", strMenu("Ada Lovelace"), false, ""},
	{DirIFD0, 0x8298, "Copyright", strMenu("(c) 2023 Verif"), false, ""},
	{DirIFD0, 0xc62f, "CameraSerialNumber", []Val{S("IFD0-SERIAL-1")}, true, ""},
	{DirIFD0, 0xc612, "DNGVersion", []Val{Byte(1, 4, 0, 0)}, true, ""},

	{DirExif, 0x829a, "ExposureTime", []Val{Rat(r(1, 250)), Rat(r(30, 1)), Rat(r(1, 8000)), Rat(r(0, 1)), Rat(r(16777215, 1)), Rat(r(1, 16777215)), Rat(r(1, 3))}, false, ""},
	{DirExif, 0x829d, "FNumber", []Val{Rat(r(28, 10)), Rat(r(1, 1)), Rat(r(22, 1)), Rat(r(95, 100))}, false, ""},
	{DirExif, 0x8822, "ExposureProgram", []Val{Short(2), Short(0), Short(9), Short(65535)}, false, ""},
	{DirExif, 0x8827, "ISOSpeedRatings", []Val{Short(100), Short(65535), Short(0), Long(102400), Short(200, 400), Short(400, 200, 800), Short(0x1234, 0)}, false, ""},
	{DirExif, 0x9003, "DateTimeOriginal", []Val{S("2023:06:15 12:34:50"), S(dates[1]), S(dates[2])}, false, ""},
	{DirExif, 0x9004, "DateTimeDigitized", []Val{S("2023:06:15 12:34:51"), S(dates[3])}, false, ""},
	{DirExif, 0x9010, "OffsetTime", offMenu, false, ""},
	{DirExif, 0x9011, "OffsetTimeOriginal", []Val{S("-05:00"), S("+02:00"), S("+00:00")}, false, ""},
	{DirExif, 0x9012, "OffsetTimeDigitized", []Val{S("+09:00"), S("-09:30")}, false, ""},
	{DirExif, 0x9202, "ApertureValue", []Val{Rat(r(2970854, 1000000)), Rat(r(5, 1)), Rat(r(0, 1))}, true, ""},
	{DirExif, 0x9204, "ExposureBiasValue", []Val{SRat(-1, 3), SRat(0, 1), SRat(2, 3), SRat(127, 100), SRat(-128, 1), SRat(1, 2)}, false, ""},
	{DirExif, 0x9207, "MeteringMode", []Val{Short(5), Short(0), Short(255), Short(6), Short(65535)}, false, ""},
	{DirExif, 0x9209, "Flash", []Val{Short(16), Short(0), Short(1), Short(0x5f), Short(65535)}, false, ""},
	{DirExif, 0x920a, "FocalLength", []Val{Rat(r(50, 1)), Rat(r(1, 3)), Rat(r(16777215, 1)), Rat(r(24, 10))}, false, ""},
	{DirExif, 0x9290, "SubSecTime", subsecMenu, false, ""},
	{DirExif, 0x9291, "SubSecTimeOriginal", []Val{S("456"), S("7"), S("4567")}, false, ""},
	{DirExif, 0x9292, "SubSecTimeDigitized", []Val{S("789"), S("78"), S("789012")}, false, ""},
	{DirExif, 0xa002, "PixelXDimension", []Val{Short(5999), Long(5999), Long(65535)}, false, ""},
	{DirExif, 0xa003, "PixelYDimension", []Val{Short(3999), Long(3999)}, false, ""},
	{DirExif, 0xa402, "ExposureMode", []Val{Short(1), Short(0), Short(2), Short(65535)}, false, ""},
	{DirExif, 0xa405, "FocalLengthIn35mmFilm", []Val{Short(75), Short(0), Short(65535)}, false, ""},
	{DirExif, 0xa430, "CameraOwnerName", []Val{S("Owner Name")}, false, ""},
	{DirExif, 0xa431, "BodySerialNumber", []Val{S("BODY-SERIAL-9"), S("7"), S(seqStr(32))}, false, ""},
	{DirExif, 0xa432, "LensSpecification", []Val{Rat(r(24, 1), r(70, 1), r(28, 10), r(28, 10)), Rat(r(0, 1), r(0, 0), r(0xffffffff, 1), r(1, 0xffffffff))}, false, ""},
	{DirExif, 0xa433, "LensMake", []Val{S("VerifLens Co"), S("L")}, false, ""},
	{DirExif, 0xa434, "LensModel", strMenu("VL 24-70mm F2.8"), false, ""},
	{DirExif, 0xa435, "LensSerialNumber", []Val{S("LENS-0001"), S("42")}, false, ""},

	{DirGPS, 0x0001, "GPSLatitudeRef", []Val{S("N"), S("S")}, false, ""},
	{DirGPS, 0x0002, "GPSLatitude", []Val{Rat(r(47, 1), r(22, 1), r(3012, 100)), Rat(r(0, 1), r(0, 1), r(0, 1)), Rat(r(90, 1), r(0, 1), r(0, 1)), Rat(r(12, 1), r(345678, 10000), r(0, 1))}, false, ""},
	{DirGPS, 0x0003, "GPSLongitudeRef", []Val{S("E"), S("W")}, false, ""},
	{DirGPS, 0x0004, "GPSLongitude", []Val{Rat(r(8, 1), r(32, 1), r(2755, 100)), Rat(r(180, 1), r(0, 1), r(0, 1)), Rat(r(179, 1), r(59, 1), r(59999, 1000))}, false, ""},
	{DirGPS, 0x0005, "GPSAltitudeRef", []Val{Byte(0), Byte(1)}, false, ""},
	{DirGPS, 0x0006, "GPSAltitude", []Val{Rat(r(4083, 10)), Rat(r(0, 1)), Rat(r(8848, 1)), Rat(r(1, 3))}, false, ""},
	{DirGPS, 0x0007, "GPSTimeStamp", []Val{Rat(r(10, 1), r(34, 1), r(56, 1)), Rat(r(0, 1), r(0, 1), r(0, 1)), Rat(r(23, 1), r(59, 1), r(59, 1)), Rat(r(20, 2), r(68, 2), r(5600, 100)), Rat(r(1310720, 65536), r(118000000, 2000000), r(4000000000, 100000000))}, false, ""},
	{DirGPS, 0x001d, "GPSDateStamp", []Val{S("2023:06:15"), S("1999:12:31")}, false, ""},
}

// ChooseRecord builds a record.  full=true: every field present at its
// default; each field is one costed choice among its menu and "absent".
// full=false: the empty record; each field is one costed choice
// {absent, default}.
func ChooseRecord(x Chooser, full bool) *Rec {
	rec := &Rec{}
	for _, f := range Fields {
		var v *Val
		if full {
			n := len(f.Menu) + 1
			c := x.Choose(f.label, n)
			if f.DefaultAbsent {
				if c > 0 {
					v = &f.Menu[c-1]
				}
			} else {
				if c < len(f.Menu) {
					v = &f.Menu[c]
				}
			}
		} else {
			if x.Choose(f.label, 2) == 1 {
				v = &f.Menu[0]
			}
		}
		if v != nil {
			rec.Entries = append(rec.Entries, Entry{Dir: f.Dir, Tag: f.Tag, Name: f.Name, V: *v})
		}
	}
	return rec
}

// NShapes is the number of shape transformations ChooseShape knows.
const NShapes = 17

// ChooseShape re-encodes one field of the record in another legal or
// near-legal shape (one more value, another integer type, no NUL terminator,
// float types ...).  It is one costed choice of the field and a free choice of
// the shape; a shape that does not apply to the field's type changes nothing.
// Expected values are not defined for these shapes: only relations between
// encodings of the same record (byte order, container) are judged on them.
func ChooseShape(x Chooser, rec *Rec) string {
	c := x.Choose("shape.field", len(rec.Entries)+1)
	if c == 0 {
		return ""
	}
	e := &rec.Entries[c-1]
	k := x.All("shape.kind", NShapes)
	// the shape is applied to every value of the field's menu, not only to the record's default
	for fi := range Fields {
		if Fields[fi].Dir == e.Dir && Fields[fi].Tag == e.Tag && !e.Foreign {
			if vi := x.All("shape.value", len(Fields[fi].Menu)+1); vi > 0 {
				e.V = Fields[fi].Menu[vi-1]
			}
			break
		}
	}
	v := e.V
	isInt := v.Type == TByte || v.Type == TShort || v.Type == TLong
	maxv := uint32(0)
	for _, i := range v.Ints {
		if i > maxv {
			maxv = i
		}
	}
	switch k {
	case 0:
		switch {
		case len(v.Ints) > 0:
			v.Ints = append(append([]uint32{}, v.Ints...), v.Ints[len(v.Ints)-1]^1)
		case len(v.Rats) > 0:
			v.Rats = append(append([][2]uint32{}, v.Rats...), [2]uint32{v.Rats[0][1], v.Rats[0][0] + 1})
		case v.Type == TASCII:
			v.Str += "Z"
		}
	case 1:
		if isInt && maxv < 1<<16 {
			v.Type = TShort
		}
	case 2:
		if isInt {
			v.Type = TLong
		}
	case 3:
		if isInt && maxv < 1<<8 {
			v.Type = TByte
		}
	case 4:
		if isInt && maxv < 1<<15 {
			v.Type = TSShort
		}
	case 5:
		if isInt && maxv < 1<<31 {
			v.Type = TSLong
		}
	case 6:
		if v.Type == TRational {
			v.Type = TSRational
		} else if v.Type == TSRational {
			v.Type = TRational
		}
	case 7:
		if v.Type == TASCII && len(v.Str) > 0 {
			v.NoNUL = true
		}
	case 8:
		if v.Type == TASCII {
			v.Type = TUndefined
			v.Ints = nil
			for _, ch := range []byte(v.Str) {
				v.Ints = append(v.Ints, uint32(ch))
			}
		} else if isInt && maxv < 256 {
			v.Type = TUndefined
		}
	case 9:
		if isInt {
			v.Type = TFloat
			out := make([]uint32, len(v.Ints))
			for i, u := range v.Ints {
				out[i] = math.Float32bits(float32(u))
			}
			v.Ints = out
		}
	case 10:
		if isInt || len(v.Rats) > 0 {
			var rr [][2]uint32
			for _, u := range v.Ints {
				b := math.Float64bits(float64(u))
				rr = append(rr, [2]uint32{uint32(b >> 32), uint32(b)})
			}
			for _, r := range v.Rats {
				f := 0.0
				if r[1] != 0 {
					f = float64(r[0]) / float64(r[1])
				}
				b := math.Float64bits(f)
				rr = append(rr, [2]uint32{uint32(b >> 32), uint32(b)})
			}
			v.Type, v.Ints, v.Rats = TDouble, nil, rr
		}
	case 11:
		if isInt && len(v.Ints) == 1 {
			v.Ints = []uint32{v.Ints[0], v.Ints[0] ^ 1}
		} else if len(v.Rats) == 1 {
			v.Rats = [][2]uint32{v.Rats[0], {v.Rats[0][0] + 1, v.Rats[0][1] + 1}}
		}
	case 15, 16: // a text field written with a two- or four-byte integer type: one value (embedded) or three (out of line)
		if v.Type == TASCII && len(v.Str) >= 2 {
			v.Type = []uint16{TShort, TLong}[k-15]
			b := []byte(v.Str + "\x00\x00\x00\x00\x00\x00\x00\x00\x00\x00\x00\x00")
			cnt := 1
			if len(v.Str) > 4 {
				cnt = 3
			}
			v.Ints = nil
			for i := 0; i < cnt; i++ {
				if v.Type == TShort {
					v.Ints = append(v.Ints, uint32(b[2*i])<<8|uint32(b[2*i+1]))
				} else {
					v.Ints = append(v.Ints, uint32(b[4*i])<<24|uint32(b[4*i+1])<<16|uint32(b[4*i+2])<<8|uint32(b[4*i+3]))
				}
			}
			v.Str = ""
		}
	case 12, 13, 14: // text at and beyond the size of the value reader's window (4096 bytes with the NUL)
		if v.Type == TASCII {
			v.Str = seqStr([]int{4095, 4096, 5000}[k-12])
			e.V = v
			return fmt.Sprintf("%s as a string of %d characters", e.Name, len(v.Str))
		}
	}
	e.V = v
	return fmt.Sprintf("%s as %s", e.Name, v)
}

// MinimalRecord is a small fixed record.
func MinimalRecord() *Rec {
	return &Rec{Entries: []Entry{
		{Dir: DirIFD0, Tag: 0x010f, Name: "Make", V: S("VerifCam")},
		{Dir: DirIFD0, Tag: 0x0112, Name: "Orientation", V: Short(6)},
		{Dir: DirExif, Tag: 0x829a, Name: "ExposureTime", V: Rat(r(1, 125))},
	}}
}

// Layout describes where things go.
type Layout struct {
	FirstIFD int // offset of the first directory
	Order    int // block order
	Pad      int // padding before each block
	ValOrder int // order of out-of-line values inside a value block
	Foreign  int // foreign tags
	NextIFD  int // 0 none, 1 IFD1 with thumbnail
	Trailing int
}

var firstIFDMenu = []int{8, 10, 16, 264}
var padMenu = []int{0, 1, 2, 13}

const (
	nOrders   = 4
	nValOrder = 3
	nForeign  = 10
)

// ChooseLayout picks a layout (all choices costed, default = canonical).
func ChooseLayout(x Chooser) Layout {
	return Layout{
		FirstIFD: firstIFDMenu[x.Choose("lay.first-ifd", len(firstIFDMenu))],
		Order:    x.Choose("lay.block-order", nOrders),
		Pad:      padMenu[x.Choose("lay.padding", len(padMenu))],
		ValOrder: x.Choose("lay.value-order", nValOrder),
		Foreign:  x.Choose("lay.foreign-tags", nForeign),
		NextIFD:  x.Choose("lay.next-ifd", 2),
		Trailing: []int{0, 64}[x.Choose("lay.trailing", 2)],
	}
}

// CanonicalLayout is the default layout.
func CanonicalLayout() Layout { return Layout{FirstIFD: 8} }

type dirPlan struct {
	dir     int
	entries []Entry // sorted by tag, including pointers and foreign
	dirOff  int
	valOff  map[int]int // entry index -> offset of out-of-line value
	valSeq  []int       // entry indices in value-block order
	valSize int
}

func foreignEntries(dir int, mode int, order int) []Entry {
	var out []Entry
	switch mode {
	case 1: // one embedded unknown tag per directory
		out = append(out, Entry{Dir: dir, Tag: 0x7001 + uint16(dir), Name: "foreign-embedded", V: Short(0x1234), Foreign: true})
	case 2: // one out-of-line unknown tag per directory
		out = append(out, Entry{Dir: dir, Tag: 0x7001 + uint16(dir), Name: "foreign-outofline", V: S("foreign value that is out of line"), Foreign: true})
	case 3: // many out-of-line unknown tags in IFD0 (stays below 84 pending)
		if dir == DirIFD0 {
			for i := 0; i < 30; i++ {
				out = append(out, Entry{Dir: dir, Tag: 0x7100 + uint16(i), Name: fmt.Sprintf("foreign-%d", i), V: Long(uint32(i), uint32(i)*3), Foreign: true})
			}
		}
	case 4: // unknown tags with low ids / known-elsewhere ids (tag id namespaces must not leak between directories)
		switch dir {
		case DirIFD0:
			out = append(out, Entry{Dir: dir, Tag: 0x829a, Name: "foreign-exif-id-in-ifd0", V: Rat(r(9, 1)), Foreign: true},
				Entry{Dir: dir, Tag: 0x0002, Name: "foreign-gps-id-in-ifd0", V: Rat(r(1, 1), r(2, 1), r(3, 1)), Foreign: true})
		case DirExif:
			out = append(out, Entry{Dir: dir, Tag: 0x010f, Name: "foreign-make-id-in-exif", V: S("NotTheMake"), Foreign: true},
				Entry{Dir: dir, Tag: 0x0112, Name: "foreign-orientation-id-in-exif", V: Short(3), Foreign: true})
		case DirGPS:
			out = append(out, Entry{Dir: dir, Tag: 0x0132, Name: "foreign-datetime-id-in-gps", V: S("2001:01:01 01:01:01"), Foreign: true})
		}
	case 6, 7, 8, 9: // a field of a type the library does not decode as the last entry of every directory, embedded and out of line
		typ := []uint16{TSByte, TIFD, 0, 14}[mode-6]
		n := 3
		if mode%2 == 1 {
			n = 9
		}
		ints := make([]uint32, n)
		for i := range ints {
			ints[i] = uint32(0x80 + i)
		}
		if typ == TIFD {
			ints = ints[:1+n/9]
		}
		out = append(out, Entry{Dir: dir, Tag: 0xfff0, Name: fmt.Sprintf("foreign-type-%d-last", typ), V: Val{Type: typ, Ints: ints}, Foreign: true})
	case 5: // near the documented capacity: every directory's own out-of-line values plus these stay below 84 pending
		// at any time.  Where each directory is followed by its values (orders 0, 2) that is a per-directory budget,
		// where values are postponed (orders 1, 3) it is a budget for the whole block.
		n := map[int]int{DirIFD0: 55, DirExif: 45, DirGPS: 40}[dir]
		if order == 1 || order == 3 {
			n = map[int]int{DirIFD0: 20, DirExif: 15, DirGPS: 5}[dir]
		}
		for i := 0; i < n; i++ {
			out = append(out, Entry{Dir: dir, Tag: 0x7200 + uint16(i), Name: fmt.Sprintf("foreign-%d", i), V: Long(uint32(i), uint32(i)*5), Foreign: true})
		}
	}
	return out
}

// EncodeTIFF serialises the directories `dirs` of rec (the first is the
// root directory at lay.FirstIFD).  Offsets are relative to the start of
// the returned document (the TIFF header).
func EncodeTIFF(rec *Rec, lay Layout, bo binary.ByteOrder, dirs []int) *Doc {
	plans := map[int]*dirPlan{}
	have := map[int]bool{}
	for _, d := range dirs {
		p := &dirPlan{dir: d, valOff: map[int]int{}}
		for _, e := range rec.Entries {
			if e.Dir == d {
				p.entries = append(p.entries, e)
			}
		}
		p.entries = append(p.entries, foreignEntries(d, lay.Foreign, lay.Order)...)
		plans[d] = p
	}
	root := dirs[0]
	// a sub-directory exists in the file only if it has entries
	for _, d := range dirs {
		have[d] = d == root || len(plans[d].entries) > 0
	}
	if root == DirIFD0 {
		if have[DirExif] {
			plans[root].entries = append(plans[root].entries, Entry{Dir: root, Tag: 0x8769, Name: "ExifTag", V: Long(0)})
		}
		if have[DirGPS] {
			plans[root].entries = append(plans[root].entries, Entry{Dir: root, Tag: 0x8825, Name: "GPSTag", V: Long(0)})
		}
	}
	for _, d := range dirs {
		p := plans[d]
		sort.SliceStable(p.entries, func(i, j int) bool { return p.entries[i].Tag < p.entries[j].Tag })
		var ool []int
		for i, e := range p.entries {
			if e.V.size() > 4 {
				ool = append(ool, i)
			}
		}
		switch lay.ValOrder {
		case 1:
			for i, j := 0, len(ool)-1; i < j; i, j = i+1, j-1 {
				ool[i], ool[j] = ool[j], ool[i]
			}
		case 2:
			var a, b []int
			for k, i := range ool {
				if k%2 == 0 {
					a = append(a, i)
				} else {
					b = append(b, i)
				}
			}
			ool = append(a, b...)
		}
		p.valSeq = ool
		for _, i := range ool {
			p.valSize += p.entries[i].V.size()
		}
	}
	// block order
	type block struct {
		dir  int
		vals bool
	}
	var order []block
	D := func(d int) block { return block{d, false} }
	V := func(d int) block { return block{d, true} }
	sub := []int{}
	for _, d := range dirs[1:] {
		if have[d] {
			sub = append(sub, d)
		}
	}
	switch lay.Order {
	case 0: // D0 V0 DE VE DG VG
		order = append(order, D(root), V(root))
		for _, d := range sub {
			order = append(order, D(d), V(d))
		}
	case 1: // all directories, then all value blocks
		order = append(order, D(root))
		for _, d := range sub {
			order = append(order, D(d))
		}
		order = append(order, V(root))
		for _, d := range sub {
			order = append(order, V(d))
		}
	case 2: // sub-directories in reverse order
		order = append(order, D(root), V(root))
		for i := len(sub) - 1; i >= 0; i-- {
			order = append(order, D(sub[i]), V(sub[i]))
		}
	case 3: // root values last
		order = append(order, D(root))
		for _, d := range sub {
			order = append(order, D(d), V(d))
		}
		order = append(order, V(root))
	}
	// assign offsets
	off := lay.FirstIFD
	for bi, b := range order {
		p := plans[b.dir]
		if bi > 0 {
			off += lay.Pad
		}
		if !b.vals {
			p.dirOff = off
			off += 2 + 12*len(p.entries) + 4
		} else {
			o := off
			for _, i := range p.valSeq {
				p.valOff[i] = o
				o += p.entries[i].V.size()
			}
			off += p.valSize
		}
	}
	ifd1Off := 0
	thumb := []byte("\xff\xd8\xff\xdb\x00\x04\x00\x00\xff\xd9")
	if lay.NextIFD == 1 && root == DirIFD0 {
		off += lay.Pad
		ifd1Off = off
		off += 2 + 12*3 + 4 + len(thumb)
	}
	total := off + lay.Trailing
	// write
	doc := &Doc{}
	if bo == binary.LittleEndian {
		doc.Str("II")
		doc.U16(bo, 42, "", "")
	} else {
		doc.Str("MM")
		doc.U16(bo, 42, "", "")
	}
	doc.U32(bo, uint32(lay.FirstIFD), "hdr.first-ifd-offset", "off32")
	buf := make([]byte, total)
	copy(buf, doc.B)
	doc.B = buf
	put16 := func(o int, v uint16) { bo.PutUint16(doc.B[o:], v) }
	put32 := func(o int, v uint32) { bo.PutUint32(doc.B[o:], v) }
	markAt := func(o, size int, name, kind string) {
		doc.Fields = append(doc.Fields, Field{Off: o, Size: size, Name: name, Kind: kind, BE: bo == binary.BigEndian})
	}
	for _, d := range dirs {
		if !have[d] {
			continue
		}
		p := plans[d]
		o := p.dirOff
		dn := dirName[d]
		put16(o, uint16(len(p.entries)))
		markAt(o, 2, dn+".entry-count", "count16")
		o += 2
		for i, e := range p.entries {
			en := fmt.Sprintf("%s.%s", dn, e.Name)
			put16(o, e.Tag)
			markAt(o, 2, en+".tag", "tag16")
			put16(o+2, e.V.Type)
			markAt(o+2, 2, en+".type", "type16")
			put32(o+4, e.V.count())
			markAt(o+4, 4, en+".count", "count32")
			switch {
			case d == root && root == DirIFD0 && e.Tag == 0x8769 && !e.Foreign:
				put32(o+8, uint32(plans[DirExif].dirOff))
				markAt(o+8, 4, en+".offset", "off32")
			case d == root && root == DirIFD0 && e.Tag == 0x8825 && !e.Foreign:
				put32(o+8, uint32(plans[DirGPS].dirOff))
				markAt(o+8, 4, en+".offset", "off32")
			case e.V.size() > 4:
				put32(o+8, uint32(p.valOff[i]))
				markAt(o+8, 4, en+".offset", "off32")
				copy(doc.B[p.valOff[i]:], e.V.encode(bo))
			default:
				copy(doc.B[o+8:o+12], e.V.encode(bo)) // left-justified in the 4-byte slot
				markAt(o+8, 4, en+".embedded", "val32")
			}
			o += 12
		}
		next := uint32(0)
		if d == root && ifd1Off != 0 {
			next = uint32(ifd1Off)
		}
		put32(o, next)
		markAt(o, 4, dn+".next-ifd", "off32")
	}
	if ifd1Off != 0 {
		o := ifd1Off
		put16(o, 3)
		o += 2
		ent := func(tag, typ uint16, cnt, val uint32) {
			put16(o, tag)
			put16(o+2, typ)
			put32(o+4, cnt)
			if typ == TShort {
				put16(o+8, uint16(val))
			} else {
				put32(o+8, val)
			}
			o += 12
		}
		tOff := ifd1Off + 2 + 36 + 4
		ent(0x0103, TShort, 1, 6)
		ent(0x0201, TLong, 1, uint32(tOff))
		ent(0x0202, TLong, 1, uint32(len(thumb)))
		put32(o, 0)
		copy(doc.B[tOff:], thumb)
	}
	for i := total - lay.Trailing; i < total; i++ {
		doc.B[i] = 0xA5
	}
	sort.SliceStable(doc.Fields, func(i, j int) bool { return doc.Fields[i].Off < doc.Fields[j].Off })
	return doc
}

// AllDirs is the usual directory list.
var AllDirs = []int{DirIFD0, DirExif, DirGPS}

// ReadBack is an independent random-access walk of a TIFF block that
// returns the entries of IFD0, ExifIFD and GPSIFD (generator
// self-validation).  rootDir says what the first directory is.
func ReadBack(b []byte, rootDir int) ([]Entry, error) {
	if len(b) < 8 {
		return nil, fmt.Errorf("short")
	}
	var bo binary.ByteOrder
	switch string(b[:4]) {
	case "II*\x00":
		bo = binary.LittleEndian
	case "MM\x00*":
		bo = binary.BigEndian
	default:
		return nil, fmt.Errorf("no signature")
	}
	var out []Entry
	var walk func(off int, dir int) error
	walk = func(off int, dir int) error {
		if off+2 > len(b) {
			return fmt.Errorf("dir %d at %d out of range", dir, off)
		}
		n := int(bo.Uint16(b[off:]))
		for i := 0; i < n; i++ {
			o := off + 2 + 12*i
			if o+12 > len(b) {
				return fmt.Errorf("entry out of range")
			}
			tag, typ, cnt := bo.Uint16(b[o:]), bo.Uint16(b[o+2:]), bo.Uint32(b[o+4:])
			size := int(cnt) * typeSize[typ]
			data := b[o+8 : o+12]
			if size > 4 {
				vo := int(bo.Uint32(b[o+8:]))
				if vo+size > len(b) {
					return fmt.Errorf("value out of range")
				}
				data = b[vo : vo+size]
			} else {
				data = data[:size]
			}
			if dir == DirIFD0 && tag == 0x8769 && typ == TLong {
				if err := walk(int(bo.Uint32(b[o+8:])), DirExif); err != nil {
					return err
				}
				continue
			}
			if dir == DirIFD0 && tag == 0x8825 && typ == TLong {
				if err := walk(int(bo.Uint32(b[o+8:])), DirGPS); err != nil {
					return err
				}
				continue
			}
			v := Val{Type: typ}
			switch typ {
			case TASCII:
				v.Str = strings.TrimSuffix(string(data), "\x00")
				v.NoNUL = len(data) == 0 || data[len(data)-1] != 0
			case TByte, TUndefined, TSByte, 0, 14:
				for _, c := range data {
					v.Ints = append(v.Ints, uint32(c))
				}
			case TShort, TSShort:
				for k := 0; k < int(cnt); k++ {
					v.Ints = append(v.Ints, uint32(bo.Uint16(data[2*k:])))
				}
			case TLong, TSLong, TFloat, TIFD:
				for k := 0; k < int(cnt); k++ {
					v.Ints = append(v.Ints, bo.Uint32(data[4*k:]))
				}
			case TDouble:
				for k := 0; k < int(cnt); k++ {
					u := bo.Uint64(data[8*k:])
					v.Rats = append(v.Rats, [2]uint32{uint32(u >> 32), uint32(u)})
				}
			case TRational, TSRational:
				for k := 0; k < int(cnt); k++ {
					v.Rats = append(v.Rats, [2]uint32{bo.Uint32(data[8*k:]), bo.Uint32(data[8*k+4:])})
				}
			}
			out = append(out, Entry{Dir: dir, Tag: tag, V: v})
		}
		return nil
	}
	if err := walk(int(bo.Uint32(b[4:])), rootDir); err != nil {
		return nil, err
	}
	return out, nil
}

// SelfCheck verifies that the encoded document reads back as the record.
func SelfCheck(rec *Rec, lay Layout, doc *Doc, dirs []int) error {
	got, err := ReadBack(doc.B, dirs[0])
	if err != nil {
		return err
	}
	var want []Entry
	inDirs := map[int]bool{}
	for _, d := range dirs {
		inDirs[d] = true
	}
	for _, d := range dirs {
		var es []Entry
		for _, e := range rec.Entries {
			if e.Dir == d {
				es = append(es, e)
			}
		}
		es = append(es, foreignEntries(d, lay.Foreign, lay.Order)...)
		want = append(want, es...)
	}
	key := func(e Entry) string { return fmt.Sprintf("%d/%04x/%s", e.Dir, e.Tag, e.V) }
	gs, ws := []string{}, []string{}
	for _, e := range got {
		gs = append(gs, key(e))
	}
	for _, e := range want {
		if dirs[0] != DirIFD0 && e.Dir != dirs[0] {
			continue
		}
		ws = append(ws, key(e))
	}
	sort.Strings(gs)
	sort.Strings(ws)
	if strings.Join(gs, "|") != strings.Join(ws, "|") {
		return fmt.Errorf("read-back mismatch:\n got %v\nwant %v", gs, ws)
	}
	return nil
}
