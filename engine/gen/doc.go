// Package gen holds the file generators.  Each generator builds a file from
// a logical description and returns the bytes together with a table of the
// structural fields it wrote (so that malformations can be enumerated
// field by field) and the description itself, which is the oracle's
// expected value.
package gen

import (
	"encoding/binary"
	"fmt"
)

// Chooser is the part of mc.Exec the generators need.
type Chooser interface {
	Choose(label string, n int) int
	All(label string, n int) int
}

// Fixed answers every choice with 0 (the canonical document).
type Fixed struct{}

func (Fixed) Choose(string, int) int { return 0 }
func (Fixed) All(string, int) int    { return 0 }

// Field is one structural field of a generated document.
type Field struct {
	Off, Size int
	Name      string
	Kind      string // count16, count32, type16, len16, len32, size32, size64, off32, val32, byte, ver8, nib8
	BE        bool
}

// Doc is a generated document.
type Doc struct {
	B      []byte
	Fields []Field
}

func (d *Doc) Len() int { return len(d.B) }

func (d *Doc) Bytes(b ...byte) { d.B = append(d.B, b...) }
func (d *Doc) Str(s string)    { d.B = append(d.B, s...) }

func (d *Doc) mark(size int, name, kind string, be bool) {
	d.Fields = append(d.Fields, Field{Off: len(d.B), Size: size, Name: name, Kind: kind, BE: be})
}

func (d *Doc) U8(v uint8, name, kind string) {
	if name != "" {
		d.mark(1, name, kind, true)
	}
	d.B = append(d.B, v)
}

func (d *Doc) U16(bo binary.ByteOrder, v uint16, name, kind string) {
	if name != "" {
		d.mark(2, name, kind, bo == binary.BigEndian)
	}
	var t [2]byte
	bo.PutUint16(t[:], v)
	d.B = append(d.B, t[:]...)
}

func (d *Doc) U32(bo binary.ByteOrder, v uint32, name, kind string) {
	if name != "" {
		d.mark(4, name, kind, bo == binary.BigEndian)
	}
	var t [4]byte
	bo.PutUint32(t[:], v)
	d.B = append(d.B, t[:]...)
}

func (d *Doc) U64(bo binary.ByteOrder, v uint64, name, kind string) {
	if name != "" {
		d.mark(8, name, kind, bo == binary.BigEndian)
	}
	var t [8]byte
	bo.PutUint64(t[:], v)
	d.B = append(d.B, t[:]...)
}

// Append concatenates another document, shifting its fields.
func (d *Doc) Append(o *Doc, prefix string) {
	base := len(d.B)
	d.B = append(d.B, o.B...)
	for _, f := range o.Fields {
		f.Off += base
		if prefix != "" {
			f.Name = prefix + "/" + f.Name
		}
		d.Fields = append(d.Fields, f)
	}
}

// PatchU32 overwrites 4 bytes at off.
func (d *Doc) PatchU32(bo binary.ByteOrder, off int, v uint32) { bo.PutUint32(d.B[off:], v) }

// Get reads the current value of a field.
func (d *Doc) Get(f Field) uint64 {
	var bo binary.ByteOrder = binary.LittleEndian
	if f.BE {
		bo = binary.BigEndian
	}
	switch f.Size {
	case 1:
		return uint64(d.B[f.Off])
	case 2:
		return uint64(bo.Uint16(d.B[f.Off:]))
	case 4:
		return uint64(bo.Uint32(d.B[f.Off:]))
	case 8:
		return bo.Uint64(d.B[f.Off:])
	}
	return 0
}

// Set overwrites a field (truncated to its width).
func (d *Doc) Set(f Field, v uint64) { d.set(f, v) }

func (d *Doc) set(f Field, v uint64) {
	var bo binary.ByteOrder = binary.LittleEndian
	if f.BE {
		bo = binary.BigEndian
	}
	switch f.Size {
	case 1:
		d.B[f.Off] = byte(v)
	case 2:
		bo.PutUint16(d.B[f.Off:], uint16(v))
	case 4:
		bo.PutUint32(d.B[f.Off:], uint32(v))
	case 8:
		bo.PutUint64(d.B[f.Off:], v)
	}
}

// Menu returns the malformed values tried for a field (never the current value).
func (d *Doc) Menu(f Field) []uint64 {
	cur := d.Get(f)
	total := uint64(len(d.B))
	var m []uint64
	switch f.Kind {
	case "count16":
		m = []uint64{0, 1, cur - 1, cur + 1, 128, 129, 0x7fff, 0x8000, 0xfffe, 0xffff}
	case "count32":
		m = []uint64{0, 1, 2, 3, 4, 5, cur - 1, cur + 1, 1023, 1024, 1025, 4097, 0x10000, 0x7fffffff, 0x80000000, 0xffffffff}
		// counts whose product with a unit size of 2, 4 or 8 wraps 32 bits to a small number
		for _, base := range []uint64{0x20000000, 0x40000000, 0x80000000, 0xc0000000} {
			for _, k := range []uint64{1, 2, 3, 5, cur} {
				m = append(m, base+k)
			}
		}
	case "type16":
		m = []uint64{0, 1, 2, 3, 4, 5, 6, 7, 10, 12, 13, 0xf0, 0xf1, 0xffff}
	case "len16":
		m = []uint64{0, 1, 2, 3, 7, 8, 9, cur - 1, cur + 1, cur + 2, 0x7fff, 0x8000, 0xfffd, 0xfffe, 0xffff}
	case "len32", "size32":
		m = []uint64{0, 1, 2, 7, 8, 9, 15, 16, 17, cur - 1, cur + 1, cur + 8, total, total + 1, 0xffff, 0x10000, 0xa00000, 0x7ffffffe, 0x7fffffff, 0x80000000, 0x80000008}
		for v := uint64(0xffffffe0); v <= 0xffffffff; v++ { // small negative numbers when read as signed: -32..-1
			m = append(m, v)
		}
		m = append(m, (1<<32)-cur, (1<<32)-cur-8, (1<<32)-cur-12)
	case "size64":
		m = []uint64{0, 1, 8, 15, 16, 17, cur - 1, cur + 1, total + 1, 1<<31 - 1, 1 << 31, 1<<32 - 1, 1 << 32, 1<<63 - 1, 1 << 63, 1<<64 - 1}
	case "off32":
		m = []uint64{0, 1, 4, 8, cur - 1, cur + 1, cur - 12, cur + 12, total - 1, total, total + 1, 0x7fffffff, 0x80000000, 0xffffffff}
	case "val32":
		m = []uint64{0, 1, cur - 1, cur + 1, 0xffff, 0x10000, 0x7fffffff, 0x80000000, 0xfffffffe, 0xffffffff}
	case "val16":
		m = []uint64{0, 1, cur - 1, cur + 1, 0x7fff, 0x8000, 0xfffe, 0xffff}
	case "byte", "ver8":
		m = []uint64{0, 1, 2, 3, 0x7f, 0x80, 0xff}
	case "nib8":
		m = []uint64{0x00, 0x11, 0x22, 0x33, 0x44, 0x88, 0x48, 0x84, 0xff, 0x0f, 0xf0, 0x40, 0x04}
	case "tag16":
		m = []uint64{0, cur + 1, 0x8769, 0x8825, 0x927c, 0x014a, 0xffff}
	default:
		panic(fmt.Sprintf("gen: no menu for kind %q", f.Kind))
	}
	mask := uint64(1)<<(8*uint(f.Size)) - 1
	if f.Size == 8 {
		mask = ^uint64(0)
	}
	seen := map[uint64]bool{cur: true}
	var out []uint64
	for _, v := range m {
		v &= mask
		if !seen[v] {
			seen[v] = true
			out = append(out, v)
		}
	}
	return out
}

// Malform applies up to the explorer's bound of field malformations: each is
// one costed choice of a field (0 = none) and a free choice of the value.
// It returns a description of what was changed.
func (d *Doc) Malform(x Chooser, max int) []string {
	var what []string
	start := 0
	for k := 0; k < max; k++ {
		n := len(d.Fields) - start
		if n <= 0 {
			break
		}
		c := x.Choose("malform-field", n+1)
		if c == 0 {
			break
		}
		f := d.Fields[start+c-1]
		menu := d.Menu(f)
		v := menu[x.All("malform-value", len(menu))]
		what = append(what, fmt.Sprintf("%s(%s@%d):%#x->%#x", f.Name, f.Kind, f.Off, d.Get(f), v))
		d.set(f, v)
		start += c
	}
	return what
}
