// Package obs flattens library results into comparable observations and
// computes the expected observation of a logical record (reference model).
package obs

import (
	"fmt"
	"math"
	"reflect"
	"sort"
	"strconv"
	"strings"
	"time"

	"verif/gen"

	"github.com/evanoberholster/imagemeta/exif2"
	"github.com/evanoberholster/imagemeta/exif2/ifds"
)

// Obs is a flattened observation: observable name -> printable value.
type Obs map[string]string

func fmtTime(t time.Time, zoneName bool) string {
	name, off := t.Zone()
	s := t.UTC().Format("2006-01-02T15:04:05.000000000Z") + fmt.Sprintf(" off=%d", off)
	if zoneName {
		s += " zone=" + name
	}
	return s
}

func f32(f float32) string { return strconv.FormatFloat(float64(f)+0, 'g', -1, 32) } // +0: -0 and 0 are the same value
func f64(f float64) string { return strconv.FormatFloat(f+0, 'g', 17, 64) }

// Exif flattens every observable of an exif2.Exif: all exported fields and
// the accessor methods.  zoneName selects whether the name of the time zone
// (not defined by the file format, but observable) is included.
func Exif(e exif2.Exif, zoneName bool) Obs {
	o := Obs{}
	v := reflect.ValueOf(e)
	t := v.Type()
	for i := 0; i < t.NumField(); i++ {
		f := t.Field(i)
		if f.PkgPath != "" {
			continue
		}
		switch f.Name {
		case "GPS", "Time":
			continue
		}
		fv := v.Field(i)
		if f.Name == "ImageType" {
			o[f.Name] = e.ImageType.String()
			continue
		}
		switch fv.Kind() {
		case reflect.Float32:
			o[f.Name] = f32(float32(fv.Float()))
		case reflect.Float64:
			o[f.Name] = f64(fv.Float())
		case reflect.String:
			o[f.Name] = strconv.Quote(fv.String())
		case reflect.Slice:
			if fv.Len() == 0 {
				o[f.Name] = "[]"
			} else {
				o[f.Name] = fmt.Sprintf("%v", fv.Interface())
			}
		case reflect.Interface:
			if fv.IsNil() {
				o[f.Name] = "<nil>"
			} else {
				o[f.Name] = fmt.Sprintf("%#v", fv.Interface())
			}
		case reflect.Uint8, reflect.Uint16, reflect.Uint32, reflect.Uint64:
			o[f.Name] = strconv.FormatUint(fv.Uint(), 10)
		case reflect.Int8, reflect.Int16, reflect.Int32, reflect.Int64:
			o[f.Name] = strconv.FormatInt(fv.Int(), 10)
		default:
			o[f.Name] = fmt.Sprintf("%v", fv.Interface())
		}
	}
	o["ModifyDate()"] = fmtTime(e.ModifyDate(), zoneName)
	o["DateTimeOriginal()"] = fmtTime(e.DateTimeOriginal(), zoneName)
	o["CreateDate()"] = fmtTime(e.CreateDate(), zoneName)
	o["GPS.Latitude()"] = f64(e.GPS.Latitude())
	o["GPS.Longitude()"] = f64(e.GPS.Longitude())
	o["GPS.Altitude()"] = f32(e.GPS.Altitude())
	o["GPS.Date()"] = fmtTime(e.GPS.Date(), zoneName)
	return o
}

// Hash is a canonical string of the observation.
func (o Obs) String() string {
	keys := make([]string, 0, len(o))
	for k := range o {
		keys = append(keys, k)
	}
	sort.Strings(keys)
	var sb strings.Builder
	for _, k := range keys {
		sb.WriteString(k)
		sb.WriteByte('=')
		sb.WriteString(o[k])
		sb.WriteByte(';')
	}
	return sb.String()
}

// Diff lists the observables on which two observations differ.  approx names
// observables compared numerically with a relative tolerance.
func Diff(got, want Obs, ignore map[string]bool) []string {
	var out []string
	keys := map[string]bool{}
	for k := range got {
		keys[k] = true
	}
	for k := range want {
		keys[k] = true
	}
	for k := range keys {
		if ignore[k] {
			continue
		}
		g, w := got[k], want[k]
		if g == w {
			continue
		}
		// alternatives: "a || b"
		if strings.Contains(w, " || ") {
			ok := false
			for _, alt := range strings.Split(w, " || ") {
				if alt == g {
					ok = true
				}
			}
			if ok {
				continue
			}
		}
		if strings.HasPrefix(k, "GPS.L") { // float64 coordinates: 1e-12 relative
			a, e1 := strconv.ParseFloat(g, 64)
			b, e2 := strconv.ParseFloat(w, 64)
			if e1 == nil && e2 == nil && math.Abs(a-b) <= 1e-12*math.Max(1, math.Abs(b)) {
				continue
			}
		}
		out = append(out, k)
	}
	sort.Strings(out)
	return out
}

// Explain prints the differing observables.
func Explain(got, want Obs, keys []string) string {
	var sb strings.Builder
	for _, k := range keys {
		g, w := got[k], want[k]
		if len(g) > 80 {
			g = g[:80] + "..."
		}
		if len(w) > 80 {
			w = w[:80] + "..."
		}
		fmt.Fprintf(&sb, "%s: got %s want %s; ", k, g, w)
	}
	return sb.String()
}

// ---- reference model: expected observation of a logical record ----

func parseExifDate(s string) (time.Time, bool) {
	if len(s) != 19 {
		return time.Time{}, false
	}
	t, err := time.Parse("2006:01:02 15:04:05", s)
	if err != nil {
		// years beyond time.Parse's range etc: build by hand
		var y, mo, d, h, mi, se int
		if _, err := fmt.Sscanf(s, "%d:%d:%d %d:%d:%d", &y, &mo, &d, &h, &mi, &se); err != nil {
			return time.Time{}, false
		}
		return time.Date(y, time.Month(mo), d, h, mi, se, 0, time.UTC), true
	}
	return t, true
}

func subsecMillis(s string) int {
	// "123" -> 123 ms, "5" -> 500 ms, "12" -> 120 ms, "123456" -> 123 ms (fraction of a second, truncated to ms)
	ms := 0
	for i := 0; i < 3; i++ {
		ms *= 10
		if i < len(s) && s[i] >= '0' && s[i] <= '9' {
			ms += int(s[i] - '0')
		}
	}
	return ms
}

func parseOffset(s string) (int, bool) {
	if len(s) != 6 || s[3] != ':' || (s[0] != '+' && s[0] != '-') {
		return 0, false
	}
	h, e1 := strconv.Atoi(s[1:3])
	m, e2 := strconv.Atoi(s[4:6])
	if e1 != nil || e2 != nil {
		return 0, false
	}
	off := h*3600 + m*60
	if s[0] == '-' {
		off = -off
	}
	return off, true
}

func ratF32(r [2]uint32) float32 { return float32(r[0]) / float32(r[1]) }

// ExpectExif computes the observation a correct decoder reports for rec
// embedded in a container whose sniffed type is imageType (String form).
// zero is the observation of the zero Exif value (absent fields).
func ExpectExif(rec *gen.Rec, imageType string) Obs {
	o := Exif(exif2.Exif{}, false)
	o["ImageType"] = imageType
	str := func(dir int, tag uint16) (string, bool) {
		v, ok := rec.Get(dir, tag)
		return v.Str, ok
	}
	setStr := func(name string, dir int, tag uint16) {
		if s, ok := str(dir, tag); ok {
			o[name] = strconv.Quote(s)
		}
	}
	u := func(dir int, tag uint16) (uint32, bool) {
		v, ok := rec.Get(dir, tag)
		if !ok || len(v.Ints) == 0 {
			return 0, false
		}
		return v.Ints[0], true
	}
	// IFD0
	if s, ok := str(gen.DirIFD0, 0x010f); ok {
		o["Make"] = strconv.Quote(s)
		switch s {
		case "Canon":
			o["CameraMake"] = fmt.Sprint(uint16(ifds.Canon))
		case "Apple":
			o["CameraMake"] = fmt.Sprint(uint16(ifds.Apple))
		}
	}
	setStr("Model", gen.DirIFD0, 0x0110)
	setStr("ImageDescription", gen.DirIFD0, 0x010e)
	setStr("Software", gen.DirIFD0, 0x0131)
	setStr("Copyright", gen.DirIFD0, 0x8298)
	if a, ok := str(gen.DirIFD0, 0x013b); ok {
		o["Artist"] = strconv.Quote(a)
	} else if a, ok := str(gen.DirExif, 0xa430); ok {
		o["Artist"] = strconv.Quote(a)
	}
	w, wok := u(gen.DirIFD0, 0x0100)
	if !wok || w == 0 {
		w, wok = u(gen.DirExif, 0xa002)
	}
	if wok {
		o["ImageWidth"] = fmt.Sprint(uint16(w))
	}
	h, hok := u(gen.DirIFD0, 0x0101)
	if !hok || h == 0 {
		h, hok = u(gen.DirExif, 0xa003)
	}
	if hok {
		o["ImageHeight"] = fmt.Sprint(uint16(h))
	}
	if v, ok := u(gen.DirIFD0, 0x0111); ok {
		o["StripOffsets"] = fmt.Sprint(v)
	}
	if v, ok := u(gen.DirIFD0, 0x0117); ok {
		o["StripByteCounts"] = fmt.Sprint(v)
	}
	if v, ok := u(gen.DirIFD0, 0x0112); ok {
		o["Orientation"] = fmt.Sprint(uint16(v))
	}
	if _, ok := rec.Get(gen.DirIFD0, 0xc612); ok && imageType == "image/tiff" {
		o["ImageType"] = "image/x-adobe-dng"
	}
	s0, ok0 := str(gen.DirIFD0, 0xc62f)
	s1, ok1 := str(gen.DirExif, 0xa431)
	switch {
	case ok0 && ok1 && s0 != s1:
		o["CameraSerial"] = strconv.Quote(s0) + " || " + strconv.Quote(s1)
	case ok0:
		o["CameraSerial"] = strconv.Quote(s0)
	case ok1:
		o["CameraSerial"] = strconv.Quote(s1)
	}
	// Exif
	setStr("LensMake", gen.DirExif, 0xa433)
	setStr("LensModel", gen.DirExif, 0xa434)
	setStr("LensSerial", gen.DirExif, 0xa435)
	if v, ok := rec.Get(gen.DirExif, 0x829a); ok {
		o["ExposureTime"] = f32(ratF32(v.Rats[0]))
	}
	if v, ok := rec.Get(gen.DirExif, 0x829d); ok {
		o["FNumber"] = f32(ratF32(v.Rats[0]))
	} else if v, ok := rec.Get(gen.DirExif, 0x9202); ok {
		apex := float64(v.Rats[0][0]) / float64(v.Rats[0][1])
		o["FNumber"] = f32(float32(math.Round(math.Pow(math.Sqrt2, apex)*100) / 100))
	}
	if v, ok := u(gen.DirExif, 0x8822); ok {
		o["ExposureProgram"] = fmt.Sprint(uint16(v))
	}
	if v, ok := u(gen.DirExif, 0x8827); ok {
		o["ISOSpeed"] = fmt.Sprint(v)
	}
	if v, ok := rec.Get(gen.DirExif, 0x9204); ok {
		n, d := int32(v.Rats[0][0]), int32(v.Rats[0][1])
		o["ExposureBias"] = fmt.Sprint(int16(n*256 + d))
	}
	if v, ok := u(gen.DirExif, 0x9207); ok {
		o["MeteringMode"] = fmt.Sprint(uint16(v))
	}
	if v, ok := u(gen.DirExif, 0x9209); ok {
		o["Flash"] = fmt.Sprint(uint16(v))
	}
	if v, ok := rec.Get(gen.DirExif, 0x920a); ok {
		o["FocalLength"] = f32(ratF32(v.Rats[0]))
	}
	if v, ok := u(gen.DirExif, 0xa405); ok {
		o["FocalLengthIn35mmFormat"] = f32(float32(v))
	}
	if v, ok := u(gen.DirExif, 0xa402); ok {
		o["ExposureMode"] = fmt.Sprint(uint16(v))
	}
	if v, ok := rec.Get(gen.DirExif, 0xa432); ok {
		var li [8]uint32
		for i, r := range v.Rats {
			li[2*i], li[2*i+1] = r[0], r[1]
		}
		o["LensInfo"] = fmt.Sprint(li)
	}
	// composite times
	mk := func(dateDir int, dateTag, subTag, offTag uint16) string {
		t := time.Time{}
		if s, ok := str(dateDir, dateTag); ok {
			if d, ok := parseExifDate(s); ok {
				t = d
			}
		}
		if s, ok := str(gen.DirExif, subTag); ok {
			t = t.Add(time.Duration(subsecMillis(s)) * time.Millisecond)
		}
		if s, ok := str(gen.DirExif, offTag); ok {
			if off, ok := parseOffset(s); ok {
				// the wall clock in the file is local time at that offset
				t = time.Date(t.Year(), t.Month(), t.Day(), t.Hour(), t.Minute(), t.Second(), t.Nanosecond(), time.FixedZone(s, off))
			}
		}
		return fmtTime(t, false)
	}
	o["ModifyDate()"] = mk(gen.DirIFD0, 0x0132, 0x9290, 0x9010)
	o["DateTimeOriginal()"] = mk(gen.DirExif, 0x9003, 0x9291, 0x9011)
	o["CreateDate()"] = mk(gen.DirExif, 0x9004, 0x9292, 0x9012)
	// GPS
	coord := func(tag, refTag uint16, neg string) string {
		v, ok := rec.Get(gen.DirGPS, tag)
		if !ok {
			return f64(0)
		}
		c := float64(v.Rats[0][0])/float64(v.Rats[0][1]) + float64(v.Rats[1][0])/float64(v.Rats[1][1])/60 + float64(v.Rats[2][0])/float64(v.Rats[2][1])/3600
		if s, ok := str(gen.DirGPS, refTag); ok && s == neg {
			c = -c
		}
		return f64(c)
	}
	o["GPS.Latitude()"] = coord(2, 1, "S")
	o["GPS.Longitude()"] = coord(4, 3, "W")
	if v, ok := rec.Get(gen.DirGPS, 6); ok {
		a := ratF32(v.Rats[0])
		if r, ok := u(gen.DirGPS, 5); ok && r == 1 {
			a = -a
		}
		o["GPS.Altitude()"] = f32(a)
	}
	gd := time.Time{}
	if s, ok := str(gen.DirGPS, 0x1d); ok {
		var y, mo, d int
		if _, err := fmt.Sscanf(s, "%d:%d:%d", &y, &mo, &d); err == nil {
			gd = time.Date(y, time.Month(mo), d, 0, 0, 0, 0, time.UTC)
		}
	}
	if v, ok := rec.Get(gen.DirGPS, 7); ok {
		secs := v.Rats[0][0]/v.Rats[0][1]*3600 + v.Rats[1][0]/v.Rats[1][1]*60 + v.Rats[2][0]/v.Rats[2][1]
		gd = gd.Add(time.Duration(secs) * time.Second)
	}
	o["GPS.Date()"] = fmtTime(gd, false)
	return o
}

// Flatten turns any struct value into an observation (exported fields, recursively).
func Flatten(v interface{}) Obs {
	o := Obs{}
	flat(o, "", reflect.ValueOf(v))
	return o
}

var timeType = reflect.TypeOf(time.Time{})

func flat(o Obs, path string, v reflect.Value) {
	if v.Type() == timeType {
		o[path] = fmtTime(v.Interface().(time.Time), false)
		return
	}
	switch v.Kind() {
	case reflect.Struct:
		t := v.Type()
		for i := 0; i < t.NumField(); i++ {
			if t.Field(i).PkgPath != "" {
				continue
			}
			p := t.Field(i).Name
			if path != "" {
				p = path + "." + p
			}
			flat(o, p, v.Field(i))
		}
	case reflect.Float32:
		o[path] = f32(float32(v.Float()))
	case reflect.Float64:
		o[path] = f64(v.Float())
	case reflect.String:
		o[path] = strconv.Quote(v.String())
	case reflect.Bool:
		o[path] = strconv.FormatBool(v.Bool())
	case reflect.Uint8, reflect.Uint16, reflect.Uint32, reflect.Uint64, reflect.Uint:
		o[path] = strconv.FormatUint(v.Uint(), 10)
	case reflect.Int8, reflect.Int16, reflect.Int32, reflect.Int64, reflect.Int:
		o[path] = strconv.FormatInt(v.Int(), 10)
	case reflect.Array:
		if v.Type().Elem().Kind() == reflect.Uint8 {
			b := make([]byte, v.Len())
			for i := range b {
				b[i] = byte(v.Index(i).Uint())
			}
			o[path] = fmt.Sprintf("%x", b)
			return
		}
		o[path] = fmt.Sprintf("%v", v.Interface())
	case reflect.Slice:
		if v.Len() == 0 {
			o[path] = "[]"
			return
		}
		if v.Type().Elem().Kind() == reflect.String {
			o[path] = fmt.Sprintf("%q", v.Interface())
			return
		}
		o[path] = fmt.Sprintf("%v", v.Interface())
	default:
		o[path] = fmt.Sprintf("%v", v.Interface())
	}
}

// FmtTime exposes the time formatting used in observations.
func FmtTime(t time.Time) string { return fmtTime(t, false) }

// F32 / F64 expose the float formatting used in observations.
func F32(f float32) string { return f32(f) }
func F64(f float64) string { return f64(f) }
