// Package guardmem hands out buffers that sit flush against PROT_NONE pages,
// so that an out-of-bounds load or store made by Go or assembly code faults.
// With debug.SetPanicOnFault(true) the fault is a recoverable panic at the
// faulting instruction.  The part of the data pages that is not handed out is
// filled with a canary pattern which Check verifies.
package guardmem

import (
	"fmt"
	"syscall"
	"unsafe"
)

const Page = 4096

// Buf is one guarded allocation.
type Buf struct {
	all   []byte // guard + data pages + guard
	data  []byte // the data pages
	off   int    // offset of the user region inside data
	n     int    // length of the user region
	canar byte
}

// Alloc returns a buffer of n bytes.  With end==true the last byte of the
// buffer is the last byte before the trailing guard page, otherwise the first
// byte is the first byte after the leading guard page.  align (power of two,
// <= Page) is applied to the start address; with end==true the buffer is
// moved down to satisfy it (so up to align-1 canary bytes separate it from
// the guard page; 0 when n is a multiple of align).
func Alloc(n int, end bool, align int) *Buf {
	if align < 1 {
		align = 1
	}
	pages := (n + Page - 1) / Page
	if pages == 0 {
		pages = 1
	}
	total := (pages + 2) * Page
	all, err := syscall.Mmap(-1, 0, total, syscall.PROT_READ|syscall.PROT_WRITE, syscall.MAP_ANON|syscall.MAP_PRIVATE)
	if err != nil {
		panic(fmt.Sprintf("guardmem: mmap: %v", err))
	}
	if err := syscall.Mprotect(all[:Page], syscall.PROT_NONE); err != nil {
		panic(err)
	}
	if err := syscall.Mprotect(all[total-Page:], syscall.PROT_NONE); err != nil {
		panic(err)
	}
	b := &Buf{all: all, data: all[Page : total-Page], n: n, canar: 0xC5}
	if end {
		b.off = (len(b.data) - n) &^ (align - 1)
	}
	for i := range b.data {
		b.data[i] = b.canar
	}
	return b
}

// Bytes is the user region.
func (b *Buf) Bytes() []byte { return b.data[b.off : b.off+b.n : b.off+b.n] }

// Float32s views the user region as float32s (n must be a multiple of 4).
func (b *Buf) Float32s() []float32 {
	if b.n == 0 {
		return nil
	}
	p := unsafe.Pointer(&b.data[b.off])
	return unsafe.Slice((*float32)(p), b.n/4)
}

// Float64s views the user region as float64s.
func (b *Buf) Float64s() []float64 {
	if b.n == 0 {
		return nil
	}
	p := unsafe.Pointer(&b.data[b.off])
	return unsafe.Slice((*float64)(p), b.n/8)
}

// Check returns the offset (relative to the user region; negative = before)
// of the first canary byte that was overwritten, and ok=false; ok=true if
// the canaries are intact.  The canaries are restored.
func (b *Buf) Check() (rel int, ok bool) {
	ok = true
	for i := 0; i < b.off; i++ {
		if b.data[i] != b.canar {
			if ok {
				rel, ok = i-b.off, false
			}
			b.data[i] = b.canar
		}
	}
	for i := b.off + b.n; i < len(b.data); i++ {
		if b.data[i] != b.canar {
			if ok {
				rel, ok = i-b.off, false
			}
			b.data[i] = b.canar
		}
	}
	return
}

// Free unmaps the buffer.
func (b *Buf) Free() {
	if b.all != nil {
		syscall.Munmap(b.all)
		b.all, b.data = nil, nil
	}
}
