package mc

import (
	"bufio"
	"crypto/sha256"
	"encoding/hex"
	"encoding/json"
	"fmt"
	"hash/fnv"
	"os"
	"os/exec"
	"path/filepath"
	"runtime"
	"sort"
	"strconv"
	"strings"
	"sync"
	"sync/atomic"
	"syscall"
	"time"
)

// Space is one exhaustively enumerated space of executions of one harness.
type Space struct {
	Name       string
	H          Harness
	Bound      int  // deviation bound for this tier
	Isolate    bool // run in worker processes (crash / hang / OOM attribution)
	SplitDepth int  // recursion depth at which subtrees are sharded (default 1)
	Rule       string
	// NoLevels explores the whole bounded tree in one DFS pass instead of
	// iterating the bound (used when Bound==0 or the space is a pure product).
	NoLevels bool
	// Serial forces a single worker (harnesses that own process-global state).
	Serial bool
	// HangSecs overrides the worker watchdog (default 20).
	HangSecs int
	// Binary, when set, is the executable used for the worker processes of
	// this space (the -race build of the same program).
	Binary string
	// Env is added to the environment of the worker processes.
	Env []string
}

// Check is everything registered for one property.
type Check struct {
	Property    string
	Level       string // evidence "level"
	Spaces      func(tier string) []Space
	Assumptions []string
	// Setup runs once per process before any space (workers included).
	Setup func()
	// Extra lets a check add keys to the coverage object.
	Extra func(cov map[string]interface{})
}

// SpaceStats are the measured counters of one space.
type SpaceStats struct {
	Name            string  `json:"name"`
	Bound           int     `json:"bound"`
	Executions      int64   `json:"executions"`
	Evaluations     int64   `json:"evaluations"`
	ChoicePoints    int64   `json:"choice_points"`
	PerLevel        []int64 `json:"executions_per_deviation_level"`
	LevelCompleted  int     `json:"highest_level_completed"`
	Exhaustive      bool    `json:"exhaustive_within_bound"`
	DistinctInputs  int64   `json:"distinct_inputs"`
	DistinctOutcome int     `json:"distinct_outcomes"`
	NonTrivial      int64   `json:"nontrivial_executions"`
	FatalCrashes    int     `json:"fatal_crashes"`
	Hangs           int     `json:"hangs"`
	Unconfirmed     int     `json:"abnormal_executions_not_reproduced_alone"`
	WallS           float64 `json:"wall_s"`
	Rule            string  `json:"rule,omitempty"`
	Vacuous         bool    `json:"vacuous_suspected,omitempty"`
}

type failRec struct {
	Space     string            `json:"space"`
	Devs      string            `json:"devs"`
	Signature string            `json:"signature"`
	Message   string            `json:"message"`
	Detail    map[string]string `json:"detail,omitempty"`
}

type workerMsg struct {
	Type     string              `json:"type"` // fail | stats | hang | sample
	Fail     *failRec            `json:"fail,omitempty"`
	Exec     int64               `json:"exec,omitempty"`
	Eval     int64               `json:"eval,omitempty"`
	CP       int64               `json:"cp,omitempty"`
	NonTriv  int64               `json:"nontriv,omitempty"`
	Outcomes []string            `json:"outcomes,omitempty"`
	Sample   *Sample             `json:"sample,omitempty"`
	Stopped  bool                `json:"stopped,omitempty"`
	Devs     string              `json:"devs,omitempty"`
	Func     string              `json:"func,omitempty"`
	Dump     string              `json:"dump,omitempty"`
	Gauges   map[string]GaugeVal `json:"gauges,omitempty"`
}

// GaugeVal is the largest value reported for a named quantity, and where.
type GaugeVal struct {
	V  float64 `json:"v"`
	At string  `json:"at"`
}

var (
	gaugeMu sync.Mutex
	gauges  = map[string]GaugeVal{}
)

// Gauge records the maximum of a named quantity over all executions, in whichever
// process they run: worker processes send their maxima with their statistics.
func Gauge(name string, v float64, at func() string) {
	gaugeMu.Lock()
	if g, ok := gauges[name]; !ok || v > g.V {
		gauges[name] = GaugeVal{v, at()}
	}
	gaugeMu.Unlock()
}

// Gauges returns a copy of the maxima recorded so far.
func Gauges() map[string]GaugeVal {
	gaugeMu.Lock()
	defer gaugeMu.Unlock()
	out := map[string]GaugeVal{}
	for k, v := range gauges {
		out[k] = v
	}
	return out
}

// Sample is an actual explored case written to the evidence.
type Sample struct {
	Space   string            `json:"space"`
	Devs    string            `json:"devs"`
	Choices []string          `json:"choices,omitempty"`
	Outcome string            `json:"outcome,omitempty"`
	Notes   map[string]string `json:"notes,omitempty"`
}

const bitmapBits = 1 << 27

type bitmap struct{ w []uint64 }

func newBitmap() *bitmap { return &bitmap{w: make([]uint64, bitmapBits/64)} }
func (b *bitmap) add(h uint64) {
	h %= bitmapBits
	p := &b.w[h/64]
	m := uint64(1) << (h % 64)
	for {
		o := atomic.LoadUint64(p)
		if o&m != 0 || atomic.CompareAndSwapUint64(p, o, o|m) {
			return
		}
	}
}
func (b *bitmap) count() int64 {
	var n int64
	for _, w := range b.w {
		for ; w != 0; w &= w - 1 {
			n++
		}
	}
	return n
}

// Runner executes a check.
type Runner struct {
	Check    *Check
	Tier     string
	Seed     int64
	VerifDir string
	Workers  int
	Deadline time.Time
	Known    []KnownFinding

	fails    map[string]*failRec // by signature (first = DFS-smallest seen)
	failN    map[string]int
	samples  []Sample
	stats    []SpaceStats
	mu       sync.Mutex
	hitDeadl bool
}

// KnownFinding is one line of known_findings.jsonl.
type KnownFinding struct {
	Status    string `json:"status"` // open | fixed
	Property  string `json:"property"`
	Signature string `json:"signature"`
	What      string `json:"what"`
	Commit    string `json:"commit,omitempty"`
	Witness   string `json:"witness,omitempty"`
}

// LoadKnown reads the known findings file.
func LoadKnown(path string) ([]KnownFinding, error) {
	f, err := os.Open(path)
	if err != nil {
		if os.IsNotExist(err) {
			return nil, nil
		}
		return nil, err
	}
	defer f.Close()
	var out []KnownFinding
	sc := bufio.NewScanner(f)
	sc.Buffer(make([]byte, 1<<20), 1<<20)
	for sc.Scan() {
		line := strings.TrimSpace(sc.Text())
		if line == "" || strings.HasPrefix(line, "#") {
			continue
		}
		var k KnownFinding
		if err := json.Unmarshal([]byte(line), &k); err != nil {
			return nil, fmt.Errorf("known_findings: %v in %q", err, line)
		}
		out = append(out, k)
	}
	return out, sc.Err()
}

func (r *Runner) addFail(f *failRec) {
	r.mu.Lock()
	defer r.mu.Unlock()
	if r.fails == nil {
		r.fails = map[string]*failRec{}
		r.failN = map[string]int{}
	}
	r.failN[f.Signature]++
	old, ok := r.fails[f.Signature]
	if !ok || len(f.Devs) < len(old.Devs) || (len(f.Devs) == len(old.Devs) && f.Devs < old.Devs) {
		if ok && old.Space != f.Space {
			return
		}
		r.fails[f.Signature] = f
	}
}

func (r *Runner) addSample(s Sample) {
	r.mu.Lock()
	defer r.mu.Unlock()
	n := 0
	for _, x := range r.samples {
		if x.Space == s.Space {
			n++
		}
	}
	if n < 3 {
		r.samples = append(r.samples, s)
	}
}

func describe(space string, x *Exec) Sample {
	s := Sample{Space: space, Devs: x.Devs().String(), Outcome: x.Outcome, Notes: x.Notes}
	for i, p := range x.Points {
		if i >= 40 {
			s.Choices = append(s.Choices, fmt.Sprintf("... %d more", len(x.Points)-i))
			break
		}
		s.Choices = append(s.Choices, fmt.Sprintf("%s=%d/%d", p.Label, p.Pick, p.N))
	}
	return s
}

type levelAgg struct {
	exec, eval, cp, nontriv int64
	outcomes                map[string]struct{}
	stopped                 bool
	fatal, hangs            int
	unconfirmed             int
}

// Run runs all spaces, writes evidence and replay artefacts, prints the
// verdict lines and returns the process exit code.
func (r *Runner) Run() int {
	start := time.Now()
	if r.Check.Setup != nil {
		r.Check.Setup()
	}
	spaces := r.Check.Spaces(r.Tier)
	allExh := true
	for si := range spaces {
		sp := &spaces[si]
		// Every space runs in worker processes: a fatal runtime error of the code under test
		// (stack overflow, concurrent map access, out of memory) must end as a VIOLATION
		// attributed to one execution, never as a dead check.
		sp.Isolate = true
		st := r.runSpace(sp)
		r.stats = append(r.stats, st)
		if !st.Exhaustive {
			allExh = false
		}
	}
	return r.finish(start, allExh)
}

func (r *Runner) runSpace(sp *Space) SpaceStats {
	t0 := time.Now()
	st := SpaceStats{Name: sp.Name, Bound: sp.Bound, Rule: sp.Rule, LevelCompleted: -1, Exhaustive: true}
	bm := newBitmap()
	outcomes := map[string]struct{}{}
	levels := []int{}
	if sp.NoLevels || sp.Bound == 0 {
		levels = []int{-1}
	} else {
		for l := 0; l <= sp.Bound; l++ {
			levels = append(levels, l)
		}
	}
	st.PerLevel = make([]int64, sp.Bound+1)
	for _, lvl := range levels {
		if time.Now().After(r.Deadline) {
			st.Exhaustive = false
			r.hitDeadl = true
			break
		}
		var agg levelAgg
		if sp.Isolate {
			agg = r.runLevelProcs(sp, lvl, bm)
		} else {
			agg = r.runLevelInproc(sp, lvl, bm, st.PerLevel)
		}
		st.Executions += agg.exec
		st.Evaluations += agg.eval
		st.ChoicePoints += agg.cp
		st.NonTrivial += agg.nontriv
		st.FatalCrashes += agg.fatal
		st.Hangs += agg.hangs
		st.Unconfirmed += agg.unconfirmed
		if agg.unconfirmed > 0 {
			st.Exhaustive = false // an execution could not be judged
		}
		for o := range agg.outcomes {
			outcomes[o] = struct{}{}
		}
		if lvl >= 0 && sp.Isolate {
			st.PerLevel[lvl] += agg.exec
		}
		if agg.stopped {
			st.Exhaustive = false
			r.hitDeadl = true
			break
		}
		if lvl < 0 {
			st.LevelCompleted = sp.Bound
		} else {
			st.LevelCompleted = lvl
		}
	}
	if sp.NoLevels || sp.Bound == 0 {
		if !sp.Isolate {
			// PerLevel filled by visitor
		} else if len(st.PerLevel) > 0 {
			st.PerLevel[0] = st.Executions
		}
	}
	st.DistinctInputs = bm.count()
	st.DistinctOutcome = len(outcomes)
	st.WallS = time.Since(t0).Seconds()
	if st.Executions > 50 && st.DistinctOutcome <= 1 {
		st.Vacuous = true
	}
	return st
}

func hashString(s string) uint64 {
	h := fnv.New64a()
	h.Write([]byte(s))
	return h.Sum64()
}

// visitor builds the per-execution bookkeeping shared by both modes.
func (r *Runner) makeVisitor(sp *Space, lvl int, bm *bitmap, agg *levelAgg, perLevel []int64, emitFail func(*failRec), emitSample func(Sample)) Visitor {
	sampled := 0
	return func(x *Exec) bool {
		if lvl >= 0 && x.Cost() != lvl {
			return true
		}
		agg.exec++
		agg.eval += 1 + x.Bulk
		agg.cp += int64(len(x.Points))
		if perLevel != nil && x.Cost() < len(perLevel) {
			atomic.AddInt64(&perLevel[x.Cost()], 1)
		}
		if !x.Trivial {
			agg.nontriv++
			id := x.InputID
			if id == 0 {
				id = hashString(x.Devs().String())
			}
			bm.add(id ^ hashString(sp.Name))
		}
		if len(agg.outcomes) < 4096 {
			agg.outcomes[x.Outcome] = struct{}{}
		}
		for i := range x.Failures {
			f := &x.Failures[i]
			emitFail(&failRec{Space: sp.Name, Devs: x.Devs().String(), Signature: f.Signature, Message: f.Message, Detail: f.Detail})
		}
		if sampled < 2 && (agg.exec == 1 || agg.exec == 1000) {
			sampled++
			lx := Run(sp.H, x.Devs(), true)
			emitSample(describe(sp.Name, lx))
		}
		return true
	}
}

func (r *Runner) runLevelInproc(sp *Space, lvl int, bm *bitmap, perLevel []int64) levelAgg {
	k := r.Workers
	if sp.Serial {
		k = 1
	}
	aggs := make([]levelAgg, k)
	var wg sync.WaitGroup
	var herr atomic.Value
	for i := 0; i < k; i++ {
		wg.Add(1)
		go func(i int) {
			defer wg.Done()
			defer func() {
				if rec := recover(); rec != nil {
					if he, ok := rec.(HarnessError); ok {
						herr.Store(he)
						return
					}
					buf := make([]byte, 1<<16)
					n := runtime.Stack(buf, false)
					herr.Store(HarnessError{fmt.Sprintf("unrecovered panic in harness: %v\n%s", rec, buf[:n])})
				}
			}()
			agg := &aggs[i]
			agg.outcomes = map[string]struct{}{}
			bound := sp.Bound
			if lvl >= 0 {
				bound = lvl
			}
			sd := sp.SplitDepth
			if sd == 0 {
				sd = 1
			}
			e := &Explorer{H: sp.H, Bound: bound, Shard: Shard{Index: i, Count: k, SplitDepth: sd}}
			e.Stop = func() bool { return time.Now().After(r.Deadline) }
			e.Visit = r.makeVisitor(sp, lvl, bm, agg, perLevel, r.addFail, func(s Sample) {
				if i == 0 {
					r.addSample(s)
				}
			})
			if !e.Explore() {
				agg.stopped = true
			}
		}(i)
	}
	wg.Wait()
	if he := herr.Load(); he != nil {
		fmt.Println(he.(HarnessError).Error())
		os.Exit(2)
	}
	var tot levelAgg
	tot.outcomes = map[string]struct{}{}
	for i := range aggs {
		tot.exec += aggs[i].exec
		tot.eval += aggs[i].eval
		tot.cp += aggs[i].cp
		tot.nontriv += aggs[i].nontriv
		tot.stopped = tot.stopped || aggs[i].stopped
		for o := range aggs[i].outcomes {
			tot.outcomes[o] = struct{}{}
		}
	}
	return tot
}

// ---------------------------------------------------------------------------
// process mode

const shmSize = 4096

// harnessExit is the exit status of a worker that met a harness inconsistency.
// It must differ from 2, which is what the Go runtime uses for fatal errors
// and uncaught panics of the code under test.
const harnessExit = 12

type shm struct {
	f   *os.File
	mem []byte
}

func openShm(path string, create bool) (*shm, error) {
	fl := os.O_RDWR
	if create {
		fl |= os.O_CREATE | os.O_TRUNC
	}
	f, err := os.OpenFile(path, fl, 0o600)
	if err != nil {
		return nil, err
	}
	if create {
		if err := f.Truncate(shmSize); err != nil {
			return nil, err
		}
	}
	mem, err := syscall.Mmap(int(f.Fd()), 0, shmSize, syscall.PROT_READ|syscall.PROT_WRITE, syscall.MAP_SHARED)
	if err != nil {
		return nil, err
	}
	return &shm{f: f, mem: mem}, nil
}

func (s *shm) set(devs string) {
	if len(devs) > shmSize-16 {
		devs = devs[:shmSize-16]
	}
	n := len(devs)
	s.mem[8] = byte(n)
	s.mem[9] = byte(n >> 8)
	copy(s.mem[16:], devs)
	// bump the counter last
	c := uint64(s.mem[0]) | uint64(s.mem[1])<<8 | uint64(s.mem[2])<<16 | uint64(s.mem[3])<<24 | uint64(s.mem[4])<<32
	c++
	s.mem[0], s.mem[1], s.mem[2], s.mem[3], s.mem[4] = byte(c), byte(c>>8), byte(c>>16), byte(c>>24), byte(c>>32)
}

func (s *shm) get() (uint64, string) {
	c := uint64(s.mem[0]) | uint64(s.mem[1])<<8 | uint64(s.mem[2])<<16 | uint64(s.mem[3])<<24 | uint64(s.mem[4])<<32
	n := int(s.mem[8]) | int(s.mem[9])<<8
	return c, string(s.mem[16 : 16+n])
}

// WorkerMain is the entry point of a worker process.
// args: <space> <level> <index> <count> <resume|-> ; env VCHECK_SHM, fd 3 = results
func setMemLimit() {
	lim := uint64(12 << 30)
	syscall.Setrlimit(syscall.RLIMIT_AS, &syscall.Rlimit{Cur: lim, Max: lim})
}

func WorkerMain(chk *Check, tier string, args []string) int {
	setMemLimit()
	if chk.Setup != nil {
		chk.Setup()
	}
	spName := args[0]
	lvl, _ := strconv.Atoi(args[1])
	idx, _ := strconv.Atoi(args[2])
	cnt, _ := strconv.Atoi(args[3])
	var resume DevList
	hasResume := false
	if args[4] != "none" {
		var err error
		resume, err = ParseDevList(args[4])
		if err != nil {
			fmt.Fprintln(os.Stderr, "bad resume", err)
			return harnessExit
		}
		hasResume = true
	}
	deadline, _ := strconv.ParseInt(os.Getenv("VCHECK_DEADLINE"), 10, 64)
	var sp *Space
	spaces := chk.Spaces(tier)
	for i := range spaces {
		if spaces[i].Name == spName {
			sp = &spaces[i]
		}
	}
	if sp == nil {
		fmt.Fprintln(os.Stderr, "no such space", spName)
		return harnessExit
	}
	out := os.NewFile(3, "results")
	enc := json.NewEncoder(out)
	var encMu sync.Mutex
	send := func(m workerMsg) {
		encMu.Lock()
		enc.Encode(m)
		encMu.Unlock()
	}
	sm, err := openShm(os.Getenv("VCHECK_SHM"), false)
	if err != nil {
		fmt.Fprintln(os.Stderr, "shm:", err)
		return harnessExit
	}
	bm := newBitmap()
	agg := &levelAgg{outcomes: map[string]struct{}{}}
	bound := sp.Bound
	if lvl >= 0 {
		bound = lvl
	}
	sd := sp.SplitDepth
	if sd == 0 {
		sd = 1
	}
	hangSecs := sp.HangSecs
	if hangSecs == 0 {
		hangSecs = 20
	}
	// watchdog
	var lastDevs atomic.Value
	lastDevs.Store("")
	go func() {
		var last uint64
		lastChange := time.Now()
		for {
			time.Sleep(500 * time.Millisecond)
			c, _ := sm.get()
			c += atomic.LoadUint64(&ProgressTicks) << 40
			if c != last {
				last = c
				lastChange = time.Now()
				continue
			}
			if c > 0 && time.Since(lastChange) > time.Duration(hangSecs)*time.Second {
				buf := make([]byte, 1<<20)
				n := runtime.Stack(buf, true)
				dump := string(buf[:n])
				_, devs := sm.get()
				send(workerMsg{Type: "hang", Devs: devs, Func: stuckFunc(dump), Dump: truncate(dump, 6000)})
				os.Exit(3)
			}
		}
	}()
	e := &Explorer{H: sp.H, Bound: bound, Shard: Shard{Index: idx, Count: cnt, SplitDepth: sd, ResumeAfter: resume, HasResume: hasResume}}
	e.Stop = func() bool { return deadline > 0 && time.Now().Unix() > deadline }
	e.Before = func(d DevList) { sm.set(d.String()) }
	e.Visit = (&Runner{}).makeVisitor(sp, lvl, bm, agg, nil, func(f *failRec) { send(workerMsg{Type: "fail", Fail: f}) }, func(s Sample) {
		if idx == 0 && !hasResume {
			send(workerMsg{Type: "sample", Sample: &s})
		}
	})
	var he *HarnessError
	func() {
		defer func() {
			if rec := recover(); rec != nil {
				if h, ok := rec.(HarnessError); ok {
					he = &h
					return
				}
				panic(rec)
			}
		}()
		if !e.Explore() {
			agg.stopped = true
		}
	}()
	if he != nil {
		fmt.Fprintln(os.Stderr, he.Error())
		return harnessExit
	}
	// signal "no execution in flight" so a late death is not attributed
	sm.mem[10] = 1
	var outs []string
	for o := range agg.outcomes {
		outs = append(outs, o)
	}
	if p := os.Getenv("VCHECK_BITMAP"); p != "" {
		writeBitmap(p, bm)
	}
	send(workerMsg{Type: "stats", Exec: agg.exec, Eval: agg.eval, CP: agg.cp, NonTriv: agg.nontriv, Outcomes: outs, Stopped: agg.stopped, Gauges: Gauges()})
	return 0
}

func truncate(s string, n int) string {
	if len(s) > n {
		return s[:n] + "...[truncated]"
	}
	return s
}

func writeBitmap(path string, bm *bitmap) {
	// sparse: write indices of non-zero words
	f, err := os.Create(path)
	if err != nil {
		return
	}
	w := bufio.NewWriter(f)
	var b [12]byte
	for i, v := range bm.w {
		if v == 0 {
			continue
		}
		b[0], b[1], b[2], b[3] = byte(i), byte(i>>8), byte(i>>16), byte(i>>24)
		for k := 0; k < 8; k++ {
			b[4+k] = byte(v >> (8 * k))
		}
		w.Write(b[:])
	}
	w.Flush()
	f.Close()
}

func mergeBitmap(path string, bm *bitmap) {
	data, err := os.ReadFile(path)
	if err != nil {
		return
	}
	for o := 0; o+12 <= len(data); o += 12 {
		i := int(data[o]) | int(data[o+1])<<8 | int(data[o+2])<<16 | int(data[o+3])<<24
		var v uint64
		for k := 0; k < 8; k++ {
			v |= uint64(data[o+4+k]) << (8 * k)
		}
		bm.w[i] |= v
	}
}

// stuckFunc extracts the innermost module function of the first goroutine
// in the dump that is running module code.
func stuckFunc(dump string) string {
	for _, g := range strings.Split(dump, "\n\n") {
		if !strings.Contains(g, ModulePath) {
			continue
		}
		for _, line := range strings.Split(g, "\n") {
			line = strings.TrimSpace(line)
			if strings.HasPrefix(line, ModulePath) && !strings.Contains(line, "/verifshim/") {
				fn := strings.TrimPrefix(line, ModulePath+"/")
				if i := strings.LastIndex(fn, "("); i > 0 {
					fn = fn[:i]
				}
				if i := strings.Index(fn, ".func"); i > 0 {
					fn = fn[:i]
				}
				return fn
			}
		}
	}
	return "?"
}

func (r *Runner) runLevelProcs(sp *Space, lvl int, bm *bitmap) levelAgg {
	k := r.Workers
	if sp.Serial {
		k = 1
	}
	tmp, err := os.MkdirTemp("", "vcheck-"+r.Check.Property+"-")
	if err != nil {
		fmt.Println("HARNESS-ERROR:", err)
		os.Exit(2)
	}
	defer os.RemoveAll(tmp)
	tot := levelAgg{outcomes: map[string]struct{}{}}
	var mu sync.Mutex
	var wg sync.WaitGroup
	for i := 0; i < k; i++ {
		wg.Add(1)
		go func(i int) {
			defer wg.Done()
			resume := "none"
			restarts := 0
			for {
				res := r.runWorker(sp, lvl, i, k, resume, tmp)
				mu.Lock()
				tot.exec += res.exec
				tot.eval += res.eval
				tot.cp += res.cp
				tot.nontriv += res.nontriv
				tot.stopped = tot.stopped || res.stopped
				for _, o := range res.outs {
					tot.outcomes[o] = struct{}{}
				}
				mu.Unlock()
				mergeBitmapLocked(&mu, filepath.Join(tmp, fmt.Sprintf("bm%d", i)), bm)
				if res.done {
					return
				}
				// abnormal end: attribute
				mu.Lock()
				if res.hang {
					tot.hangs++
				} else {
					tot.fatal++
				}
				mu.Unlock()
				if res.culprit == "" {
					fmt.Printf("HARNESS-ERROR: worker %d of %s died without a case in flight: %s\n", i, sp.Name, truncate(res.stderr, 2000))
					os.Exit(2)
				}
				if !r.attribute(sp, lvl, res) {
					mu.Lock()
					tot.unconfirmed++
					mu.Unlock()
				}
				restarts++
				if restarts >= 6 {
					mu.Lock()
					tot.stopped = true
					mu.Unlock()
					return
				}
				resume = res.culprit
			}
		}(i)
	}
	wg.Wait()
	return tot
}

func mergeBitmapLocked(mu *sync.Mutex, path string, bm *bitmap) {
	mu.Lock()
	mergeBitmap(path, bm)
	mu.Unlock()
	os.Remove(path)
}

type workerResult struct {
	exec, eval, cp, nontriv int64
	outs                    []string
	stopped, done, hang     bool
	culprit                 string
	stderr                  string
	hangFunc, hangDump      string
	exit                    string
}

func (r *Runner) runWorker(sp *Space, lvl, i, k int, resume, tmp string) workerResult {
	var res workerResult
	shmPath := filepath.Join(tmp, fmt.Sprintf("shm%d", i))
	sm, err := openShm(shmPath, true)
	if err != nil {
		fmt.Println("HARNESS-ERROR:", err)
		os.Exit(2)
	}
	defer func() { syscall.Munmap(sm.mem); sm.f.Close() }()
	pr, pw, _ := os.Pipe()
	errPath := filepath.Join(tmp, fmt.Sprintf("err%d", i))
	errF, _ := os.Create(errPath)
	exe := os.Args[0]
	if sp.Binary != "" {
		exe = sp.Binary
	}
	cmd := exec.Command(exe, "worker", r.Check.Property, r.Tier, sp.Name, strconv.Itoa(lvl), strconv.Itoa(i), strconv.Itoa(k), resume)
	cmd.Env = append(append(os.Environ(), sp.Env...),
		"VCHECK_SHM="+shmPath,
		"VCHECK_BITMAP="+filepath.Join(tmp, fmt.Sprintf("bm%d", i)),
		"VCHECK_DEADLINE="+strconv.FormatInt(r.Deadline.Unix(), 10),
		"GOMAXPROCS=2",
		"GOTRACEBACK=all",
	)
	cmd.Stdout = errF
	cmd.Stderr = errF
	cmd.ExtraFiles = []*os.File{pw}
	if err := cmd.Start(); err != nil {
		fmt.Println("HARNESS-ERROR: start worker:", err)
		os.Exit(2)
	}
	pw.Close()
	sc := bufio.NewScanner(pr)
	sc.Buffer(make([]byte, 1<<22), 1<<22)
	for sc.Scan() {
		var m workerMsg
		if json.Unmarshal(sc.Bytes(), &m) != nil {
			continue
		}
		switch m.Type {
		case "fail":
			r.addFail(m.Fail)
		case "sample":
			r.addSample(*m.Sample)
		case "stats":
			res.exec, res.eval, res.cp, res.nontriv, res.outs, res.stopped = m.Exec, m.Eval, m.CP, m.NonTriv, m.Outcomes, m.Stopped
			res.done = true
			for k, g := range m.Gauges {
				g := g
				Gauge(k, g.V, func() string { return g.At })
			}
		case "hang":
			res.hang = true
			res.culprit = m.Devs
			res.hangFunc = m.Func
			res.hangDump = m.Dump
		}
	}
	werr := cmd.Wait()
	pr.Close()
	errF.Close()
	if res.done && werr == nil {
		return res
	}
	res.done = false
	if werr != nil {
		res.exit = werr.Error()
	}
	if ee, ok := werr.(*exec.ExitError); ok && ee.ExitCode() == harnessExit {
		b, _ := os.ReadFile(errPath)
		fmt.Printf("HARNESS-ERROR: worker %d of %s: %s\n", i, sp.Name, truncate(string(b), 4000))
		os.Exit(2)
	}
	b, _ := os.ReadFile(errPath)
	res.stderr = string(b)
	if !res.hang {
		if sm.mem[10] == 0 {
			_, res.culprit = sm.get()
		}
	}
	return res
}

func fatalClass(stderr string) (string, string) {
	for _, line := range strings.Split(stderr, "\n") {
		if strings.HasPrefix(line, "fatal error:") || strings.HasPrefix(line, "runtime: ") && strings.Contains(line, "exceeds") {
			msg := strings.TrimSpace(strings.TrimPrefix(line, "fatal error:"))
			w := strings.Fields(msg)
			if len(w) > 4 {
				w = w[:4]
			}
			return strings.Join(w, "_"), line
		}
		if strings.HasPrefix(line, "panic:") {
			return "uncaught-panic", line
		}
	}
	return "worker-died", ""
}

// attribute turns a worker death or hang into a failure, after confirming
// it by re-running that single execution in a fresh process.  It returns
// false when the abnormality did not reproduce alone (the execution is then
// counted as unconfirmed and the space as not exhaustive; never an alarm).
func (r *Runner) attribute(sp *Space, lvl int, res workerResult) bool {
	limit := 60 * time.Second
	exe := os.Args[0]
	if sp.Binary != "" {
		exe = sp.Binary
	}
	cmd := exec.Command(exe, "exec1", r.Check.Property, r.Tier, sp.Name, res.culprit)
	cmd.Env = append(append(os.Environ(), sp.Env...), "GOMAXPROCS=2", "GOTRACEBACK=all", "VCHECK_HANG_SAMPLER=1")
	var out strings.Builder
	cmd.Stdout = &out
	cmd.Stderr = &out
	cmd.Start()
	done := make(chan error, 1)
	go func() { done <- cmd.Wait() }()
	died, hung := false, false
	hangFn := ""
	var dump string
	select {
	case err := <-done:
		dump = out.String()
		if ee, ok := err.(*exec.ExitError); ok && ee.ExitCode() == 4 {
			hung = true
			if i := strings.Index(dump, "HANG-FUNC: "); i >= 0 {
				hangFn = strings.TrimSpace(strings.SplitN(dump[i+11:], "\n", 2)[0])
			}
		} else if ok && ee.ExitCode() == harnessExit {
			fmt.Printf("HARNESS-ERROR: re-running %s/%s alone: %s\n", sp.Name, res.culprit, truncate(dump, 2000))
			os.Exit(2)
		} else if ok && ee.ExitCode() != 1 {
			died = true // exit 1 = the execution completed and reported oracle failures in-process
		}
	case <-time.After(limit):
		cmd.Process.Signal(syscall.SIGQUIT)
		select {
		case <-done:
		case <-time.After(5 * time.Second):
			cmd.Process.Kill()
			<-done
		}
		dump = out.String()
		hung = true
	}
	if !died && !hung {
		return false
	}
	f := &failRec{Space: sp.Name, Devs: res.culprit, Detail: map[string]string{}}
	if hung {
		fn := hangFn
		if fn == "" || fn == "?" {
			fn = stuckFunc(dump)
		}
		if fn == "?" {
			fn = res.hangFunc
		}
		f.Signature = "hang|" + fn
		f.Message = fmt.Sprintf("execution made no progress for the watchdog period in the batch and did not finish within 30 s alone; stuck in %s", fn)
		f.Detail["goroutine_dump"] = truncate(dump, 4000)
	} else {
		if a, b, ok := raceSites(dump); ok {
			f.Signature = "race|" + a + "|" + b
			f.Message = "the race detector reported a data race between " + a + " and " + b + " in this schedule"
			f.Detail["race_report"] = truncate(dump, 6000)
		} else {
			cls, line := fatalClass(dump + "\n" + res.stderr)
			fn := stuckFunc(dump)
			f.Signature = "fatal|" + cls + "|" + fn
			f.Message = "process died: " + line
			f.Detail["stderr"] = truncate(dump, 4000)
		}
	}
	r.addFail(f)
	return true
}

// raceSites extracts the innermost module functions of the two accesses of
// the first race report in the output.
// RaceSites is raceSites for harnesses that run the code under test in a child process of their own.
func RaceSites(dump string) (string, string, bool) { return raceSites(dump) }

func raceSites(dump string) (string, string, bool) {
	i := strings.Index(dump, "WARNING: DATA RACE")
	if i < 0 {
		return "", "", false
	}
	rep := dump[i:]
	if j := strings.Index(rep, "=================="); j > 0 {
		rep = rep[:j]
	}
	var sites []string
	for _, blk := range strings.Split(rep, "\n\n") {
		head := strings.TrimSpace(strings.SplitN(blk, "\n", 2)[0])
		if !(strings.HasPrefix(head, "Write at") || strings.HasPrefix(head, "Read at") || strings.HasPrefix(head, "Previous write at") || strings.HasPrefix(head, "Previous read at") || strings.HasPrefix(head, "WARNING: DATA RACE")) {
			continue
		}
		fn := "?"
		for _, line := range strings.Split(blk, "\n") {
			line = strings.TrimSpace(line)
			if strings.HasPrefix(line, ModulePath) && !strings.Contains(line, "/verifshim/") {
				fn = strings.TrimPrefix(line, ModulePath+"/")
				if k := strings.LastIndex(fn, "("); k > 0 {
					fn = fn[:k]
				}
				if k := strings.Index(fn, ".func"); k > 0 {
					fn = fn[:k]
				}
				break
			}
		}
		if strings.HasPrefix(head, "WARNING") && fn == "?" {
			continue
		}
		sites = append(sites, fn)
	}
	for len(sites) < 2 {
		sites = append(sites, "?")
	}
	a, b := sites[0], sites[1]
	if b < a {
		a, b = b, a
	}
	return a, b, true
}

// hangSampler decides, inside a single-execution process, that the execution
// is stuck: after 30 s it takes 25 stack samples of the main goroutine and
// reports the innermost module function common to all of them (the owner of
// the loop, whichever helper each sample happened to land in).
func hangSampler() {
	time.Sleep(30 * time.Second)
	var common []string
	for i := 0; i < 25; i++ {
		buf := make([]byte, 1<<18)
		n := runtime.Stack(buf, true)
		fr := moduleFrames(string(buf[:n]), "goroutine 1 [")
		if i == 0 {
			common = fr
		} else {
			in := map[string]bool{}
			for _, f := range fr {
				in[f] = true
			}
			var keep []string
			for _, f := range common {
				if in[f] {
					keep = append(keep, f)
				}
			}
			common = keep
		}
		time.Sleep(40 * time.Millisecond)
	}
	fn := "?"
	if len(common) > 0 {
		fn = common[0]
	}
	fmt.Printf("HANG-FUNC: %s\n", fn)
	os.Exit(4)
}

// moduleFrames lists the module functions (innermost first) on the stack of
// the goroutine whose header starts with prefix.
func moduleFrames(dump, prefix string) []string {
	var out []string
	for _, g := range strings.Split(dump, "\n\n") {
		if !strings.HasPrefix(g, prefix) {
			continue
		}
		for _, line := range strings.Split(g, "\n") {
			line = strings.TrimSpace(line)
			if strings.HasPrefix(line, ModulePath) && !strings.Contains(line, "/verifshim/") {
				fn := strings.TrimPrefix(line, ModulePath+"/")
				if i := strings.LastIndex(fn, "("); i > 0 {
					fn = fn[:i]
				}
				if i := strings.Index(fn, ".func"); i > 0 {
					fn = fn[:i]
				}
				out = append(out, fn)
			}
		}
	}
	return out
}

// Exec1Main runs a single execution (used to confirm crashes and for replay).
func Exec1Main(chk *Check, tier string, spName, devs string, verbose bool) int {
	setMemLimit()
	if chk.Setup != nil {
		chk.Setup()
	}
	var sp *Space
	spaces := chk.Spaces(tier)
	for i := range spaces {
		if spaces[i].Name == spName {
			sp = &spaces[i]
		}
	}
	if sp == nil {
		fmt.Println("no such space", spName)
		return harnessExit
	}
	d, err := ParseDevList(devs)
	if err != nil {
		fmt.Println(err)
		return harnessExit
	}
	if os.Getenv("VCHECK_HANG_SAMPLER") != "" {
		go hangSampler()
	}
	var x *Exec
	var he *HarnessError
	func() {
		defer func() {
			if rec := recover(); rec != nil {
				if h, ok := rec.(HarnessError); ok {
					he = &h
					return
				}
				panic(rec)
			}
		}()
		x = Run(sp.H, d, true)
	}()
	if he != nil {
		fmt.Println(he.Error())
		return harnessExit
	}
	if verbose {
		s := describe(sp.Name, x)
		b, _ := json.MarshalIndent(s, "", " ")
		fmt.Println(string(b))
	}
	for _, f := range x.Failures {
		fmt.Printf("FAIL signature=%s\n  %s\n", f.Signature, f.Message)
		if verbose {
			keys := make([]string, 0, len(f.Detail))
			for k := range f.Detail {
				keys = append(keys, k)
			}
			sort.Strings(keys)
			for _, k := range keys {
				fmt.Printf("  %s: %s\n", k, f.Detail[k])
			}
		}
	}
	if len(x.Failures) > 0 {
		return 1
	}
	if verbose {
		fmt.Println("OK: no oracle failure in this execution")
	}
	return 0
}

// ---------------------------------------------------------------------------
// verdict, artefacts, evidence

func (r *Runner) finish(start time.Time, allExh bool) int {
	sigs := make([]string, 0, len(r.fails))
	for s := range r.fails {
		sigs = append(sigs, s)
	}
	sort.Strings(sigs)
	open := map[string]KnownFinding{}
	for _, k := range r.Known {
		if k.Property == r.Check.Property && k.Status == "open" {
			open[k.Signature] = k
		}
	}
	violations := 0
	knownHits := 0
	exit := 0
	spaceByName := map[string]*Space{}
	spaces := r.Check.Spaces(r.Tier)
	for i := range spaces {
		spaceByName[spaces[i].Name] = &spaces[i]
	}
	for _, sig := range sigs {
		f := r.fails[sig]
		if k, ok := open[sig]; ok {
			fmt.Printf("KNOWN-FINDING: property=%s %s [signature %s, %d executions]\n", r.Check.Property, k.What, sig, r.failN[sig])
			knownHits++
			continue
		}
		// determinism: in-process failures are replayed twice
		if !strings.HasPrefix(sig, "hang|") && !strings.HasPrefix(sig, "fatal|") && !strings.HasPrefix(sig, "race|") {
			sp := spaceByName[f.Space]
			d, _ := ParseDevList(f.Devs)
			for k := 0; k < 2; k++ {
				x := Run(sp.H, d, true)
				found := false
				for _, ff := range x.Failures {
					if ff.Signature == sig {
						found = true
					}
				}
				if !found {
					fmt.Printf("HARNESS-ERROR: failure %s at %s/%s did not reproduce on replay %d\n", sig, f.Space, f.Devs, k+1)
					return 2
				}
				if k == 1 {
					s := describe(sp.Name, x)
					if f.Detail == nil {
						f.Detail = map[string]string{}
					}
					f.Detail["choices"] = strings.Join(s.Choices, " ")
				}
			}
		}
		violations++
		exit = 1
		if violations > 25 {
			continue // artefacts and lines for the first 25 root causes are enough
		}
		path := r.writeReplay(f)
		fmt.Printf("VIOLATION property=%s replay=%s\n", r.Check.Property, path)
		fmt.Printf("  signature: %s (%d executions)\n  %s\n", sig, r.failN[sig], truncate(f.Message, 600))
	}
	if violations > 25 {
		fmt.Printf("  ... and %d more distinct failure signatures (not listed)\n", violations-25)
	}
	if os.Getenv("VCHECK_LIST_ALL") != "" {
		for _, sig := range sigs {
			fmt.Printf("SIG %s (%d)\n", truncate(sig, 300), r.failN[sig])
		}
	}
	r.writeEvidence(start, allExh, violations, knownHits)
	var ex, ev int64
	for _, s := range r.stats {
		ex += s.Executions
		ev += s.Evaluations
	}
	fmt.Printf("%s %s: %d executions, %d evaluations, %d spaces, exhaustive=%v, violations=%d, known=%d, %.1fs\n",
		r.Check.Property, r.Tier, ex, ev, len(r.stats), allExh, violations, knownHits, time.Since(start).Seconds())
	return exit
}

func (r *Runner) writeReplay(f *failRec) string {
	dir := filepath.Join(r.VerifDir, "replays")
	os.MkdirAll(dir, 0o755)
	h := sha256.Sum256([]byte(f.Signature + "|" + f.Space))
	path := filepath.Join(dir, fmt.Sprintf("%s-%s.json", r.Check.Property, hex.EncodeToString(h[:6])))
	obj := map[string]interface{}{
		"property":  r.Check.Property,
		"tier":      r.Tier,
		"space":     f.Space,
		"devs":      f.Devs,
		"signature": f.Signature,
		"message":   f.Message,
		"detail":    f.Detail,
		"replay":    fmt.Sprintf("./vcheck replay %s", path),
	}
	b, _ := json.MarshalIndent(obj, "", " ")
	os.WriteFile(path, b, 0o644)
	return path
}

func (r *Runner) writeEvidence(start time.Time, allExh bool, violations, knownHits int) {
	var ex, ev, cp, nontriv, distinct int64
	outcomes := 0
	var rules []string
	for _, s := range r.stats {
		ex += s.Executions
		ev += s.Evaluations
		cp += s.ChoicePoints
		nontriv += s.NonTrivial
		distinct += s.DistinctInputs
		outcomes += s.DistinctOutcome
		if s.Rule != "" {
			rules = append(rules, s.Name+": "+s.Rule)
		}
	}
	if distinct > nontriv {
		distinct = nontriv
	}
	samples := make([]interface{}, 0, len(r.samples))
	for _, s := range r.samples {
		samples = append(samples, s)
	}
	if len(samples) == 0 {
		samples = append(samples, "no execution ran (deadline before first execution)")
	}
	states := distinct
	if states < 1 {
		states = 1
	}
	trans := cp
	if trans < 1 {
		trans = 1
	}
	cov := map[string]interface{}{
		"states":                        states,
		"transitions":                   trans,
		"traces_validated_against_impl": ex,
		"samples":                       samples,
		"evaluations":                   ev,
		"executions":                    ex,
		"distinct_nontrivial":           distinct,
		"rule":                          strings.Join(rules, " || "),
		"exhaustive":                    allExh,
		"spaces":                        r.stats,
		"known_findings_matched":        knownHits,
		"deadline_hit":                  r.hitDeadl,
		"explanation": "states = distinct generated inputs/configurations reached (conservative bitmap count); transitions = choice points traversed over all executions; " +
			"every execution is a run of the real implementation rebuilt from /repo, so traces_validated_against_impl = executions",
	}
	if r.Check.Extra != nil {
		r.Check.Extra(cov)
	}
	evd := map[string]interface{}{
		"property_id": r.Check.Property,
		"tier":        r.Tier,
		"seed":        r.Seed,
		"level":       r.Check.Level,
		"coverage":    cov,
		"assumptions": r.Check.Assumptions,
		"wall_s":      time.Since(start).Seconds(),
		"violations":  violations,
	}
	b, _ := json.MarshalIndent(evd, "", " ")
	dir := filepath.Join(r.VerifDir, "evidence")
	os.MkdirAll(dir, 0o755)
	os.WriteFile(filepath.Join(dir, r.Check.Property+".json"), b, 0o644)
}
