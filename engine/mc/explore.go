// Package mc is the bounded exhaustive explorer shared by all checks.
//
// A harness is an ordinary function of an *Exec.  Every source of
// nondeterminism the harness wants explored is a call to Choose (costed:
// option 0 is the default, any other option is one deviation) or All (free:
// all options are enumerated without cost).  The engine enumerates every
// execution whose number of deviations is within the bound, by stateless
// re-execution: an execution is identified by its deviation list
// [(position, option)...]; all other choice points answer 0.
//
// DFS pre-order equals the lexicographic order on deviation lists, which is
// what makes static sharding over worker processes and resume-after-crash
// possible without any shared state.
package mc

import (
	"fmt"
	"strconv"
	"strings"
	"sync/atomic"
)

// ProgressTicks counts executions started in this process, owned or not
// (the worker watchdog uses it to tell slow sharing of shallow nodes from a hang).
var ProgressTicks uint64

// Dev is one non-default answer at a choice point.
type Dev struct {
	Pos int // index of the choice point in the execution
	Opt int // option taken (>= 1)
}

// DevList identifies an execution.
type DevList []Dev

func (d DevList) String() string {
	if len(d) == 0 {
		return "-"
	}
	var sb strings.Builder
	for i, x := range d {
		if i > 0 {
			sb.WriteByte(',')
		}
		sb.WriteString(strconv.Itoa(x.Pos))
		sb.WriteByte(':')
		sb.WriteString(strconv.Itoa(x.Opt))
	}
	return sb.String()
}

// ParseDevList is the inverse of String.
func ParseDevList(s string) (DevList, error) {
	if s == "-" || s == "" {
		return nil, nil
	}
	var out DevList
	for _, p := range strings.Split(s, ",") {
		a, b, ok := strings.Cut(p, ":")
		if !ok {
			return nil, fmt.Errorf("bad devlist element %q", p)
		}
		pos, err := strconv.Atoi(a)
		if err != nil {
			return nil, err
		}
		opt, err := strconv.Atoi(b)
		if err != nil {
			return nil, err
		}
		out = append(out, Dev{pos, opt})
	}
	return out, nil
}

// cmp orders deviation lists in DFS pre-order (a prefix sorts first).
func cmpDev(a, b DevList) int {
	for i := 0; i < len(a) && i < len(b); i++ {
		if a[i].Pos != b[i].Pos {
			if a[i].Pos < b[i].Pos {
				return -1
			}
			return 1
		}
		if a[i].Opt != b[i].Opt {
			if a[i].Opt < b[i].Opt {
				return -1
			}
			return 1
		}
	}
	switch {
	case len(a) < len(b):
		return -1
	case len(a) > len(b):
		return 1
	}
	return 0
}

func isPrefix(a, b DevList) bool {
	if len(a) > len(b) {
		return false
	}
	for i := range a {
		if a[i] != b[i] {
			return false
		}
	}
	return true
}

// Point is one visited choice point.
type Point struct {
	Label  string
	N      int
	Pick   int
	Costed bool
}

// HarnessError is raised (as a panic) when the harness itself is
// inconsistent: replay divergence, generator self-validation failure.
// It is never reported as a VIOLATION.
type HarnessError struct{ Msg string }

func (h HarnessError) Error() string { return "HARNESS-ERROR: " + h.Msg }

// Failure is an oracle failure recorded by the harness.
type Failure struct {
	Signature string            // root-cause signature (known-finding matching, dedup)
	Message   string            // human readable
	Detail    map[string]string // materialised input, expected/observed, stack...
}

// Exec is one execution of a harness.
type Exec struct {
	devs   DevList
	next   int // index into devs
	Points []Point
	cost   int

	Failures []Failure
	// Observation hash helpers, outcome classes etc. are filled by harness.
	Outcome string // short string classifying what was observed (for distinct outcome counting)
	InputID uint64 // hash of generated input (for distinct input counting)
	Bulk    int64  // additional evaluations performed natively inside this execution
	Trivial bool   // harness marks executions that are trivial by its stated rule
	Notes   map[string]string

	KeepLabels bool
}

func (x *Exec) choose(label string, n int, costed bool) int {
	if n <= 0 {
		panic(HarnessError{fmt.Sprintf("choice %q with n=%d", label, n)})
	}
	pos := len(x.Points)
	pick := 0
	if x.next < len(x.devs) && x.devs[x.next].Pos == pos {
		pick = x.devs[x.next].Opt
		if pick >= n {
			panic(HarnessError{fmt.Sprintf("replay divergence: choice %d (%s) has %d options, prefix wants %d", pos, label, n, pick)})
		}
		x.next++
	} else if x.next < len(x.devs) && x.devs[x.next].Pos < pos {
		panic(HarnessError{fmt.Sprintf("replay divergence: deviation at %d skipped (now at %d %s)", x.devs[x.next].Pos, pos, label)})
	}
	if costed && pick != 0 {
		x.cost++
	}
	x.Points = append(x.Points, Point{Label: label, N: n, Pick: pick, Costed: costed})
	return pick
}

// Choose is a costed choice: option 0 is the default.
func (x *Exec) Choose(label string, n int) int { return x.choose(label, n, true) }

// All is a free choice: every option is explored at no cost.
func (x *Exec) All(label string, n int) int { return x.choose(label, n, false) }

// DevLabels lists the costed deviations taken so far as "label=option,...".
func (x *Exec) DevLabels() string {
	var sb strings.Builder
	for _, p := range x.Points {
		if p.Costed && p.Pick != 0 {
			if sb.Len() > 0 {
				sb.WriteByte(',')
			}
			sb.WriteString(p.Label)
			sb.WriteByte('=')
			sb.WriteString(strconv.Itoa(p.Pick))
		}
	}
	if sb.Len() == 0 {
		return "-"
	}
	return sb.String()
}

// Cost is the number of deviations taken so far.
func (x *Exec) Cost() int { return x.cost }

// Devs returns the identity of this execution.
func (x *Exec) Devs() DevList { return x.devs }

// Fail records an oracle failure.
func (x *Exec) Fail(sig, msg string, detail map[string]string) {
	x.Failures = append(x.Failures, Failure{Signature: sig, Message: msg, Detail: detail})
}

// Note attaches a key/value to the execution (used for samples).
func (x *Exec) Note(k, v string) {
	if x.Notes == nil {
		x.Notes = map[string]string{}
	}
	x.Notes[k] = v
}

// Harness is the function under exploration.
type Harness func(x *Exec)

// Run executes the harness once for the given deviation list.
func Run(h Harness, devs DevList, keepLabels bool) (x *Exec) {
	x = &Exec{devs: devs, KeepLabels: keepLabels}
	h(x)
	if x.next != len(x.devs) {
		panic(HarnessError{fmt.Sprintf("replay divergence: execution ended after %d choice points, deviation %v not reached", len(x.Points), x.devs[x.next])})
	}
	return x
}

// Shard describes which part of the tree this process owns.
type Shard struct {
	Index, Count int
	SplitDepth   int     // nodes at this recursion depth are distributed round-robin
	ResumeAfter  DevList // skip everything up to and including this node's subtree
	HasResume    bool
}

// Visitor receives every owned execution.  Returning false stops the search.
type Visitor func(x *Exec) bool

// Explorer walks the tree.
type Explorer struct {
	H       Harness
	Bound   int // max deviations (costed choices)
	Shard   Shard
	Visit   Visitor
	Before  func(d DevList) // called before each owned execution (progress / crash attribution)
	Stopped bool
	// Stop is polled between executions (deadline).
	Stop func() bool

	seq int64 // counter of nodes at split depth
}

// Explore runs the search.  It returns false if it was stopped early.
func (e *Explorer) Explore() bool {
	if e.Shard.Count == 0 {
		e.Shard.Count = 1
	}
	e.explore(nil, 0, true)
	return !e.Stopped
}

func (e *Explorer) explore(devs DevList, depth int, owned bool) {
	if e.Stopped {
		return
	}
	if e.Stop != nil && e.Stop() {
		e.Stopped = true
		return
	}
	sh := &e.Shard
	if sh.Count > 1 {
		if depth == sh.SplitDepth {
			owned = e.seq%int64(sh.Count) == int64(sh.Index)
			e.seq++
			if !owned {
				return // whole subtree belongs to another worker
			}
		} else if depth < sh.SplitDepth {
			owned = sh.Index == 0 // shallow nodes are run by everybody, checked by worker 0
		}
	}
	check := owned
	if sh.HasResume {
		c := cmpDev(devs, sh.ResumeAfter)
		if c == 0 {
			return // the crashed node: skip it and its subtree
		}
		if c < 0 {
			if !isPrefix(devs, sh.ResumeAfter) {
				return // subtree entirely before the resume point
			}
			check = false // ancestor of the resume point: run for its trace only
		}
	}
	if e.Before != nil {
		e.Before(devs) // also for executions this worker does not own: a crash there must be attributable
	}
	atomic.AddUint64(&ProgressTicks, 1)
	x := Run(e.H, devs, false)
	if check {
		if !e.Visit(x) {
			e.Stopped = true
			return
		}
	}
	start := 0
	if len(devs) > 0 {
		start = devs[len(devs)-1].Pos + 1
	}
	// cost before position i
	cost := 0
	for i := 0; i < start && i < len(x.Points); i++ {
		if x.Points[i].Costed && x.Points[i].Pick != 0 {
			cost++
		}
	}
	for i := start; i < len(x.Points); i++ {
		p := x.Points[i]
		if p.N <= 1 {
			continue
		}
		if p.Costed && cost+1 > e.Bound {
			continue
		}
		for alt := 1; alt < p.N; alt++ {
			nd := make(DevList, len(devs)+1)
			copy(nd, devs)
			nd[len(devs)] = Dev{i, alt}
			e.explore(nd, depth+1, owned)
			if e.Stopped {
				return
			}
		}
	}
}
