package mc

import (
	"fmt"
	"runtime"
	"strings"
)

// ModulePath is the import-path prefix of the code under test.
const ModulePath = "github.com/evanoberholster/imagemeta"

// PanicInfo describes a recovered panic.
type PanicInfo struct {
	Value string
	Class string
	Func  string // innermost function inside the module under test
	Stack string
}

// Signature is the root-cause signature of a panic.
func (p *PanicInfo) Signature() string { return "panic|" + p.Func + "|" + p.Class }

// Sentinel values a harness may panic with on purpose.
type WorkBudgetExceeded struct{ Msg string }

// Error makes the sentinel survive recover()+state.(error) conversions inside the library.
func (w WorkBudgetExceeded) Error() string { return w.Msg }

func classify(v interface{}) string {
	var s string
	switch t := v.(type) {
	case runtime.Error:
		s = t.Error()
	case error:
		s = t.Error()
	default:
		s = fmt.Sprint(v)
	}
	switch {
	case strings.Contains(s, "index out of range"):
		return "index"
	case strings.Contains(s, "slice bounds out of range"):
		return "slice-bounds"
	case strings.Contains(s, "nil pointer dereference"), strings.Contains(s, "invalid memory address"):
		return "nil"
	case strings.Contains(s, "divide by zero"):
		return "divide"
	case strings.Contains(s, "makeslice"):
		return "makeslice"
	case strings.Contains(s, "interface conversion"):
		return "type-assert"
	case strings.Contains(s, "unexpected fault address"), strings.Contains(s, "fault"):
		return "fault"
	}
	w := strings.Fields(s)
	if len(w) > 4 {
		w = w[:4]
	}
	return "explicit:" + strings.Join(w, "_")
}

// Guard runs f and converts a panic into a PanicInfo.  HarnessError panics
// and WorkBudgetExceeded are passed through (re-panicked) so that they are
// not mistaken for library behaviour, unless keepBudget is set.
func Guard(f func()) (pi *PanicInfo) {
	defer func() {
		r := recover()
		if r == nil {
			return
		}
		if he, ok := r.(HarnessError); ok {
			panic(he)
		}
		pcs := make([]uintptr, 64)
		n := runtime.Callers(2, pcs)
		frames := runtime.CallersFrames(pcs[:n])
		var sb strings.Builder
		fn := ""
		for {
			fr, more := frames.Next()
			if fn == "" && strings.HasPrefix(fr.Function, ModulePath) && !strings.Contains(fr.Function, "/verifshim/") &&
				!strings.Contains(fr.Function, "/meta/utils.ByteOrder.") { // leaf helper: the caller is the root cause
				fn = strings.TrimPrefix(fr.Function, ModulePath)
				fn = strings.TrimPrefix(fn, "/")
			}
			fmt.Fprintf(&sb, "%s\n\t%s:%d\n", fr.Function, fr.File, fr.Line)
			if !more {
				break
			}
		}
		if fn == "" {
			fn = "?"
		}
		// strip closure suffixes so that signatures survive small refactors
		if i := strings.Index(fn, ".func"); i > 0 {
			fn = fn[:i]
		}
		pi = &PanicInfo{Value: fmt.Sprint(r), Class: classify(r), Func: fn, Stack: sb.String()}
		if wb, ok := r.(WorkBudgetExceeded); ok {
			pi.Class = "work-budget"
			pi.Value = wb.Msg
		}
	}()
	f()
	return nil
}
