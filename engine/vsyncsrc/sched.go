package vsync

// Scheduler stub: replaced by the cooperative scheduler (see sched_coop.go).

type scheduler struct{}

func sched() *scheduler { return nil }

func (s *scheduler) poolGet(p *Pool) interface{}  { return nil }
func (s *scheduler) poolPut(p *Pool, x interface{}) {}
func (s *scheduler) mutexLock(m *Mutex)            {}
func (s *scheduler) mutexUnlock(m *Mutex)          {}
func (s *scheduler) mutexTryLock(m *Mutex) bool    { return false }
func (s *scheduler) rwLock(m *RWMutex)             {}
func (s *scheduler) rwUnlock(m *RWMutex)           {}
func (s *scheduler) rwRLock(m *RWMutex)            {}
func (s *scheduler) rwRUnlock(m *RWMutex)          {}
