package vsync

// Cooperative scheduler for controlled concurrency exploration.
//
// Threads are real goroutines; exactly one of them (or the controller) runs at
// a time.  Every shim operation (Pool.Get/Put, Mutex and RWMutex operations)
// and every explicit Yield is a scheduling point: the thread publishes its
// pending operation, hands control to the controller and waits for its turn.
// The controller computes the enabled set from the model state of the
// primitives, asks the harness which enabled thread runs next (and, for a
// Pool.Get, which pooled object it receives), applies the model effect and
// resumes that thread, which then performs the real primitive operation
// (never blocking, because the model says it cannot).
//
// The hand-off is a spin on plain words inside //go:norace functions with
// runtime.Gosched() in the loop: the race detector does not see these
// accesses, so the scheduler adds no happens-before edge, and a serialised
// execution is still judged by the edges of the library's own
// synchronisation (real mutex operations, Put(x)->Get(x) published through a
// per-slot atomic, goroutine start and WaitGroup end).  All scheduler
// bookkeeping lives in fixed arrays touched only from norace functions.

import (
	"runtime"
	"sync"
)

const (
	opNone = iota
	opStart
	opYield
	opPoolGet
	opPoolPut
	opMutexLock
	opMutexUnlock
	opRWLockAnnounce
	opRWLockAcquire
	opRWUnlock
	opRWRLock
	opRWRUnlock
)

var opNames = [...]string{"none", "start", "yield", "Pool.Get", "Pool.Put", "Mutex.Lock", "Mutex.Unlock", "RWMutex.Lock(announce)", "RWMutex.Lock(acquire)", "RWMutex.Unlock", "RWMutex.RLock", "RWMutex.RUnlock"}

const maxThreads = 8
const maxTracked = 16

type schedAbort struct{}

func (schedAbort) Error() string {
	return "vsync: execution aborted by the scheduler (deadlock unwinding)"
}

type thread struct {
	op     int
	pool   *Pool
	mu     *Mutex
	rw     *RWMutex
	answer int // Pool.Get: which pooled object (rank by recency), == count means New
	turn   uint32
	done   bool
	active bool
	panicV interface{}
	stack  []byte
}

// Decision is asked of the harness at every scheduling decision.
// kind "sched": options are enabled threads (ids in enabled[:n]); curEnabled
// says whether option 0 is the thread that was running (so any other option
// is a preemption).  kind "pool": n options, 0 = most recently put.
type Decision func(kind string, n int, curEnabled bool, detail string) int

type scheduler struct {
	threads [maxThreads]thread
	n       int
	cur     int
	ctl     uint32
	abort   uint32
	decide  Decision
	wg      sync.WaitGroup

	mutexes  [maxTracked]*Mutex
	nMutex   int
	rwmus    [maxTracked]*RWMutex
	nRW      int
	Deadlock bool
	Blocked  string
	Points   int
	Switches int
}

var active *scheduler

//go:norace
func sched() *scheduler { return active }

// Result of a controlled run.
type RunResult struct {
	Deadlock bool
	Blocked  string // pending operations of the blocked threads
	Panics   [maxThreads]interface{}
	Stacks   [maxThreads][]byte
	Points   int
	Switches int
}

// Run executes the thread bodies under the scheduler.  It must be called
// from a goroutine that runs no library code concurrently.
func Run(bodies []func(), decide Decision) RunResult {
	if len(bodies) > maxThreads {
		panic("vsync: too many threads")
	}
	s := &scheduler{n: len(bodies), cur: -1, decide: decide}
	for i := range bodies {
		s.threads[i].op = opStart
		s.threads[i].active = true
	}
	setActive(s)
	for i, f := range bodies {
		s.wg.Add(1)
		go s.threadMain(i, f)
	}
	s.loop()
	s.wg.Wait()
	setActive(nil)
	s.forceRelease()
	var r RunResult
	r.Deadlock, r.Blocked, r.Points, r.Switches = s.Deadlock, s.Blocked, s.Points, s.Switches
	for i := 0; i < s.n; i++ {
		r.Panics[i] = s.threads[i].panicV
		r.Stacks[i] = s.threads[i].stack
	}
	return r
}

//go:norace
func setActive(s *scheduler) { active = s }

func (s *scheduler) threadMain(id int, f func()) {
	defer s.wg.Done()
	defer func() {
		r := recover()
		if r != nil {
			if _, ok := r.(schedAbort); !ok {
				buf := make([]byte, 16384)
				buf = buf[:runtime.Stack(buf, false)]
				s.recordPanic(id, r, buf)
			}
		}
		s.finish(id)
	}()
	s.waitTurn(id)
	f()
}

//go:norace
func (s *scheduler) recordPanic(id int, r interface{}, st []byte) {
	s.threads[id].panicV = r
	s.threads[id].stack = st
}

//go:norace
func (s *scheduler) finish(id int) {
	s.threads[id].done = true
	s.threads[id].op = opNone
	s.ctl = 1
}

//go:norace
func (s *scheduler) waitTurn(id int) {
	t := &s.threads[id]
	for t.turn == 0 {
		if s.abort != 0 {
			panic(schedAbort{})
		}
		runtime.Gosched()
	}
	t.turn = 0
}

// point publishes the pending operation of the running thread and waits
// until the controller resumes it.  It returns false when the execution is
// being aborted (the caller then skips the real operation).
//
//go:norace
func (s *scheduler) point(op int, p *Pool, m *Mutex, rw *RWMutex) bool {
	if s.abort != 0 || s.cur < 0 {
		return false
	}
	id := s.cur
	t := &s.threads[id]
	t.op, t.pool, t.mu, t.rw = op, p, m, rw
	s.ctl = 1
	s.waitTurn(id)
	return true
}

//go:norace
func (s *scheduler) enabled(t *thread) bool {
	if t.done || !t.active {
		return false
	}
	switch t.op {
	case opMutexLock:
		return !t.mu.locked
	case opRWLockAcquire:
		return !t.rw.writer && t.rw.readers == 0
	case opRWRLock:
		return !t.rw.writer && t.rw.pendingW == 0
	}
	return true
}

// apply performs the model effect of the operation the thread is about to execute.
//
//go:norace
func (s *scheduler) apply(t *thread) {
	switch t.op {
	case opMutexLock:
		t.mu.locked = true
		s.trackMutex(t.mu)
	case opMutexUnlock:
		t.mu.locked = false
	case opRWLockAnnounce:
		t.rw.pendingW++
		s.trackRW(t.rw)
	case opRWLockAcquire:
		t.rw.pendingW--
		t.rw.writer = true
	case opRWUnlock:
		t.rw.writer = false
	case opRWRLock:
		t.rw.readers++
		s.trackRW(t.rw)
	case opRWRUnlock:
		t.rw.readers--
	}
}

//go:norace
func (s *scheduler) trackMutex(m *Mutex) {
	for i := 0; i < s.nMutex; i++ {
		if s.mutexes[i] == m {
			return
		}
	}
	if s.nMutex < maxTracked {
		s.mutexes[s.nMutex] = m
		s.nMutex++
	}
}

//go:norace
func (s *scheduler) trackRW(m *RWMutex) {
	for i := 0; i < s.nRW; i++ {
		if s.rwmus[i] == m {
			return
		}
	}
	if s.nRW < maxTracked {
		s.rwmus[s.nRW] = m
		s.nRW++
	}
}

// forceRelease puts primitives that an aborted execution left held back to
// the unlocked state (model and real), so that the process stays usable.
func (s *scheduler) forceRelease() {
	for i := 0; i < s.nMutex; i++ {
		m := s.mutexes[i]
		if m.locked {
			m.locked = false
			m.real.TryLock()
			m.real.Unlock()
		}
	}
	for i := 0; i < s.nRW; i++ {
		m := s.rwmus[i]
		if m.writer || m.readers != 0 || m.pendingW != 0 {
			*m = RWMutex{}
		}
	}
}

// loop is the controller.
//
//go:norace
func (s *scheduler) loop() {
	s.ctl = 1
	for {
		for s.ctl == 0 {
			runtime.Gosched()
		}
		s.ctl = 0
		var en [maxThreads]int
		n := 0
		alive := 0
		curEnabled := false
		if s.cur >= 0 && s.enabled(&s.threads[s.cur]) {
			en[0] = s.cur
			n = 1
			curEnabled = true
		}
		for i := 0; i < s.n; i++ {
			t := &s.threads[i]
			if !t.done {
				alive++
			}
			if i != s.cur && s.enabled(t) {
				en[n] = i
				n++
			}
		}
		if alive == 0 {
			s.cur = -1
			return
		}
		if n == 0 {
			s.Deadlock = true
			s.Blocked = s.describeBlocked()
			s.cur = -1
			s.abort = 1
			return // threads unwind through schedAbort; Run waits for them
		}
		pick := 0
		if n > 1 {
			pick = s.callDecide("sched", n, curEnabled, "")
		}
		id := en[pick]
		if s.cur >= 0 && id != s.cur {
			s.Switches++
		}
		t := &s.threads[id]
		if t.op == opPoolGet {
			k := t.pool.count()
			t.answer = 0
			if k > 0 {
				t.answer = s.callDecide("pool", k+1, false, "")
			} else {
				t.answer = 0
			}
		}
		s.apply(t)
		s.Points++
		s.cur = id
		t.turn = 1
	}
}

// callDecide is a separate (instrumented) function: the harness callback
// runs on the controller goroutine only.
func (s *scheduler) callDecide(kind string, n int, curEnabled bool, detail string) int {
	k := s.decide(kind, n, curEnabled, detail)
	if k < 0 || k >= n {
		panic("vsync: decision out of range")
	}
	return k
}

//go:norace
func (s *scheduler) describeBlocked() string {
	out := ""
	for i := 0; i < s.n; i++ {
		t := &s.threads[i]
		if !t.done {
			out += "thread " + string(rune('0'+i)) + " blocked at " + opNames[t.op] + "; "
		}
	}
	return out
}

// ---- operations called by the shim on the running thread ----

//go:norace
func (p *Pool) count() int {
	k := 0
	for i := 0; i < maxPoolItems; i++ {
		if p.items[i] != nil {
			k++
		}
	}
	return k
}

func (s *scheduler) poolGet(p *Pool) interface{} {
	if !s.point(opPoolGet, p, nil, nil) {
		if p.New != nil {
			return p.New()
		}
		return nil
	}
	x, slot := s.takeFromPool(p)
	if x == nil {
		if p.New != nil {
			return p.New()
		}
		return nil
	}
	p.acquireEdge(slot)
	return x
}

// takeFromPool removes the object selected by the controller's answer
// (rank by recency among the pooled objects).
//
//go:norace
func (s *scheduler) takeFromPool(p *Pool) (interface{}, int) {
	t := &s.threads[s.cur]
	k := p.count()
	p.gets++
	if k == 0 || t.answer >= k {
		p.news++
		return nil, -1
	}
	// find the slot with the (answer)-th largest sequence number
	var used [maxPoolItems]bool
	slot := -1
	for r := 0; r <= t.answer; r++ {
		best := -1
		for i := 0; i < maxPoolItems; i++ {
			if p.items[i] != nil && !used[i] && (best < 0 || p.seq[i] > p.seq[best]) {
				best = i
			}
		}
		used[best] = true
		slot = best
	}
	x := p.items[slot]
	p.items[slot] = nil
	p.n--
	return x, slot
}

func (s *scheduler) poolPut(p *Pool, x interface{}) {
	if !s.point(opPoolPut, p, nil, nil) {
		return
	}
	slot := s.putIntoPool(p, x)
	if slot >= 0 {
		p.releaseEdge(slot)
	}
}

//go:norace
func (s *scheduler) putIntoPool(p *Pool, x interface{}) int {
	for i := 0; i < maxPoolItems; i++ {
		if p.items[i] == nil {
			p.items[i] = x
			p.seqCounter++
			p.seq[i] = p.seqCounter
			p.n++
			return i
		}
	}
	return -1
}

func (s *scheduler) mutexLock(m *Mutex) {
	if !s.point(opMutexLock, nil, m, nil) {
		return
	}
	m.real.Lock()
}

func (s *scheduler) mutexUnlock(m *Mutex) {
	if !s.point(opMutexUnlock, nil, m, nil) {
		return
	}
	m.real.Unlock()
}

func (s *scheduler) mutexTryLock(m *Mutex) bool {
	if !s.point(opYield, nil, nil, nil) {
		return false
	}
	return s.tryLockModel(m) && m.real.TryLock()
}

//go:norace
func (s *scheduler) tryLockModel(m *Mutex) bool {
	if m.locked {
		return false
	}
	m.locked = true
	s.trackMutex(m)
	return true
}

func (s *scheduler) rwLock(m *RWMutex) {
	if !s.point(opRWLockAnnounce, nil, nil, m) {
		return
	}
	if !s.point(opRWLockAcquire, nil, nil, m) {
		return
	}
	m.real.Lock()
}

func (s *scheduler) rwUnlock(m *RWMutex) {
	if !s.point(opRWUnlock, nil, nil, m) {
		return
	}
	m.real.Unlock()
}

func (s *scheduler) rwRLock(m *RWMutex) {
	if !s.point(opRWRLock, nil, nil, m) {
		return
	}
	m.real.RLock()
}

func (s *scheduler) rwRUnlock(m *RWMutex) {
	if !s.point(opRWRUnlock, nil, nil, m) {
		return
	}
	m.real.RUnlock()
}

// Yield is a scheduling point the harness inserts where real goroutines are
// descheduled (I/O).  Outside a controlled run it does nothing.
func Yield() {
	if s := sched(); s != nil {
		s.point(opYield, nil, nil, nil)
	}
}
