// Package vsync replaces package sync inside the library under test (import
// rewrite through `go build -overlay`).  Pool, Mutex and RWMutex are modelled
// so that an explorer owns their nondeterminism; everything else is the real
// thing.
//
// Two modes:
//   - no scheduler attached: Pool is a deterministic LIFO list guarded by a
//     real mutex, with an optional chooser (pool answer = choice point);
//     Mutex/RWMutex are the real primitives.
//   - scheduler attached (see sched.go): every operation is a scheduling
//     point of a cooperative scheduler; bookkeeping is done in //go:norace
//     functions on plain memory so that the race detector keeps judging the
//     library by the happens-before edges of its own synchronisation only.
package vsync

import (
	"sync"
	"sync/atomic"
)

type (
	WaitGroup = sync.WaitGroup
	Once      = sync.Once
	Map       = sync.Map
	Cond      = sync.Cond
	Locker    = sync.Locker
)

func NewCond(l Locker) *Cond { return sync.NewCond(l) }

func OnceFunc(f func()) func() { return sync.OnceFunc(f) }

const maxPoolItems = 64

// Pool is the modelled sync.Pool.  Pooled objects sit in fixed slots with a
// sequence number (recency); a slot's atomic word publishes exactly the edge
// Put(x) -> Get returning x, as the real pool does for the race detector.
type Pool struct {
	New func() interface{}

	mu         sync.Mutex
	items      [maxPoolItems]interface{}
	seq        [maxPoolItems]uint64
	edge       [maxPoolItems]uint32
	seqCounter uint64
	n          int
	id         int32 // 1-based registry id, 0 = not yet registered
	gets       int64
	news       int64
}

var (
	regMu    sync.Mutex
	registry [64]*Pool
	regN     int32
)

// Chooser, when set, decides which pooled object a Get returns: it is given
// the pool and the number of pooled objects n and answers k in [0,n]:
// k<n = the k-th most recently put object, k==n = call New.
// It is only consulted when no scheduler is attached.
var Chooser func(p *Pool, n int) int

func (p *Pool) register() {
	if atomic.LoadInt32(&p.id) != 0 {
		return
	}
	regMu.Lock()
	if p.id == 0 {
		if int(regN) >= len(registry) {
			panic("vsync: too many pools")
		}
		registry[regN] = p
		regN++
		atomic.StoreInt32(&p.id, regN)
	}
	regMu.Unlock()
}

func (p *Pool) releaseEdge(slot int) { atomic.StoreUint32(&p.edge[slot], 1) }
func (p *Pool) acquireEdge(slot int) { atomic.LoadUint32(&p.edge[slot]) }

// rankSlot returns the slot holding the k-th most recently put object.
func (p *Pool) rankSlot(k int) int {
	var used [maxPoolItems]bool
	slot := -1
	for r := 0; r <= k; r++ {
		best := -1
		for i := 0; i < maxPoolItems; i++ {
			if p.items[i] != nil && !used[i] && (best < 0 || p.seq[i] > p.seq[best]) {
				best = i
			}
		}
		if best < 0 {
			return -1
		}
		used[best] = true
		slot = best
	}
	return slot
}

// Get returns a pooled object or calls New.
func (p *Pool) Get() interface{} {
	p.register()
	if s := sched(); s != nil {
		return s.poolGet(p)
	}
	p.mu.Lock()
	p.gets++
	n := p.n
	k := 0
	if Chooser != nil {
		k = Chooser(p, n)
	}
	if n == 0 || k >= n {
		p.news++
		p.mu.Unlock()
		if p.New == nil {
			return nil
		}
		return p.New()
	}
	slot := p.rankSlot(k)
	x := p.items[slot]
	p.items[slot] = nil
	p.n--
	p.mu.Unlock()
	return x
}

// Put adds x to the pool.
func (p *Pool) Put(x interface{}) {
	if x == nil {
		return
	}
	p.register()
	if s := sched(); s != nil {
		s.poolPut(p, x)
		return
	}
	p.mu.Lock()
	for i := 0; i < maxPoolItems; i++ {
		if p.items[i] == nil {
			p.items[i] = x
			p.seqCounter++
			p.seq[i] = p.seqCounter
			p.n++
			break
		}
	}
	p.mu.Unlock()
}

// ---- harness access to pool contents ----

// Pools returns all pools that have been used so far, in registration order.
func Pools() []*Pool {
	regMu.Lock()
	defer regMu.Unlock()
	out := make([]*Pool, regN)
	copy(out, registry[:regN])
	return out
}

// ResetPools empties every registered pool.
func ResetPools() {
	for _, p := range Pools() {
		p.mu.Lock()
		for i := range p.items {
			p.items[i] = nil
			p.seq[i] = 0
		}
		p.n = 0
		p.seqCounter = 0
		p.gets, p.news = 0, 0
		p.mu.Unlock()
	}
}

// Items returns the pooled objects, oldest first.
func (p *Pool) Items() []interface{} {
	p.mu.Lock()
	defer p.mu.Unlock()
	out := make([]interface{}, 0, p.n)
	for k := p.n - 1; k >= 0; k-- {
		if s := p.rankSlot(k); s >= 0 {
			out = append(out, p.items[s])
		}
	}
	return out
}

// Len is the number of pooled objects.
func (p *Pool) Len() int {
	p.mu.Lock()
	defer p.mu.Unlock()
	return p.n
}

// Stats returns Get and New counts since the last reset.
func (p *Pool) Stats() (gets, news int64) {
	p.mu.Lock()
	defer p.mu.Unlock()
	return p.gets, p.news
}

// ID is the registration index (0-based) of the pool.
func (p *Pool) ID() int { return int(atomic.LoadInt32(&p.id)) - 1 }

// ---- mutexes ----

// Mutex is the modelled sync.Mutex.
type Mutex struct {
	real   sync.Mutex
	locked bool // model state, scheduler mode only
}

func (m *Mutex) Lock() {
	if s := sched(); s != nil {
		s.mutexLock(m)
		return
	}
	m.real.Lock()
}

func (m *Mutex) Unlock() {
	if s := sched(); s != nil {
		s.mutexUnlock(m)
		return
	}
	m.real.Unlock()
}

func (m *Mutex) TryLock() bool {
	if s := sched(); s != nil {
		return s.mutexTryLock(m)
	}
	return m.real.TryLock()
}

// RWMutex is the modelled sync.RWMutex.
type RWMutex struct {
	real     sync.RWMutex
	writer   bool
	readers  int32
	pendingW int32
}

func (m *RWMutex) Lock() {
	if s := sched(); s != nil {
		s.rwLock(m)
		return
	}
	m.real.Lock()
}

func (m *RWMutex) Unlock() {
	if s := sched(); s != nil {
		s.rwUnlock(m)
		return
	}
	m.real.Unlock()
}

func (m *RWMutex) RLock() {
	if s := sched(); s != nil {
		s.rwRLock(m)
		return
	}
	m.real.RLock()
}

func (m *RWMutex) RUnlock() {
	if s := sched(); s != nil {
		s.rwRUnlock(m)
		return
	}
	m.real.RUnlock()
}

func (m *RWMutex) TryLock() bool   { return m.real.TryLock() }
func (m *RWMutex) TryRLock() bool  { return m.real.TryRLock() }
func (m *RWMutex) RLocker() Locker { return (*rlocker)(m) }

type rlocker RWMutex

func (r *rlocker) Lock()   { (*RWMutex)(r).RLock() }
func (r *rlocker) Unlock() { (*RWMutex)(r).RUnlock() }
