// Package vsync replaces package sync inside the library under test (import
// rewrite through `go build -overlay`).  Pool, Mutex and RWMutex are modelled
// so that an explorer owns their nondeterminism; everything else is the real
// thing.
//
// Two modes:
//   - no scheduler attached: Pool is a deterministic LIFO list guarded by a
//     real mutex, with an optional chooser (pool answer = choice point);
//     Mutex/RWMutex are the real primitives.
//   - scheduler attached (see sched.go): every operation is a scheduling
//     point of a cooperative scheduler; bookkeeping is done in //go:norace
//     functions on plain memory so that the race detector keeps judging the
//     library by the happens-before edges of its own synchronisation only.
package vsync

import (
	"sync"
	"sync/atomic"
)

type (
	WaitGroup = sync.WaitGroup
	Once      = sync.Once
	Map       = sync.Map
	Cond      = sync.Cond
	Locker    = sync.Locker
)

func NewCond(l Locker) *Cond { return sync.NewCond(l) }

func OnceFunc(f func()) func() { return sync.OnceFunc(f) }

const maxPoolItems = 64

// Pool is the modelled sync.Pool.
type Pool struct {
	New func() interface{}

	mu    sync.Mutex
	items [maxPoolItems]interface{}
	edge  [maxPoolItems]uint32 // per-slot atomic: publishes Put(x) -> Get(x) only
	n     int
	id    int32 // 1-based registry id, 0 = not yet registered
	gets  int64
	news  int64
}

var (
	regMu    sync.Mutex
	registry [64]*Pool
	regN     int32
)

// Chooser, when set, decides which pooled object a Get returns: it is given
// the pool and the number of pooled objects n and answers k in [0,n]:
// k<n = the k-th most recently put object, k==n = call New.
// It is only consulted when no scheduler is attached.
var Chooser func(p *Pool, n int) int

func (p *Pool) register() {
	if atomic.LoadInt32(&p.id) != 0 {
		return
	}
	regMu.Lock()
	if p.id == 0 {
		if int(regN) >= len(registry) {
			panic("vsync: too many pools")
		}
		registry[regN] = p
		regN++
		atomic.StoreInt32(&p.id, regN)
	}
	regMu.Unlock()
}

// Get returns a pooled object or calls New.
func (p *Pool) Get() interface{} {
	p.register()
	if s := sched(); s != nil {
		return s.poolGet(p)
	}
	p.mu.Lock()
	p.gets++
	n := p.n
	k := 0
	if Chooser != nil {
		k = Chooser(p, n)
	}
	if n == 0 || k >= n {
		p.news++
		p.mu.Unlock()
		if p.New == nil {
			return nil
		}
		return p.New()
	}
	idx := n - 1 - k
	x := p.items[idx]
	copy(p.items[idx:n-1], p.items[idx+1:n])
	p.items[n-1] = nil
	p.n--
	p.mu.Unlock()
	return x
}

// Put adds x to the pool.
func (p *Pool) Put(x interface{}) {
	if x == nil {
		return
	}
	p.register()
	if s := sched(); s != nil {
		s.poolPut(p, x)
		return
	}
	p.mu.Lock()
	if p.n < maxPoolItems {
		p.items[p.n] = x
		p.n++
	}
	p.mu.Unlock()
}

// ---- harness access to pool contents ----

// Pools returns all pools that have been used so far, in registration order.
func Pools() []*Pool {
	regMu.Lock()
	defer regMu.Unlock()
	out := make([]*Pool, regN)
	copy(out, registry[:regN])
	return out
}

// ResetPools empties every registered pool.
func ResetPools() {
	for _, p := range Pools() {
		p.mu.Lock()
		for i := 0; i < p.n; i++ {
			p.items[i] = nil
		}
		p.n = 0
		p.gets, p.news = 0, 0
		p.mu.Unlock()
	}
}

// Items returns the pooled objects, oldest first.
func (p *Pool) Items() []interface{} {
	p.mu.Lock()
	defer p.mu.Unlock()
	out := make([]interface{}, p.n)
	copy(out, p.items[:p.n])
	return out
}

// Len is the number of pooled objects.
func (p *Pool) Len() int {
	p.mu.Lock()
	defer p.mu.Unlock()
	return p.n
}

// Stats returns Get and New counts since the last reset.
func (p *Pool) Stats() (gets, news int64) {
	p.mu.Lock()
	defer p.mu.Unlock()
	return p.gets, p.news
}

// ID is the registration index (0-based) of the pool.
func (p *Pool) ID() int { return int(atomic.LoadInt32(&p.id)) - 1 }

// ---- mutexes ----

// Mutex is the modelled sync.Mutex.
type Mutex struct {
	real   sync.Mutex
	locked bool // model state, scheduler mode only
}

func (m *Mutex) Lock() {
	if s := sched(); s != nil {
		s.mutexLock(m)
		return
	}
	m.real.Lock()
}

func (m *Mutex) Unlock() {
	if s := sched(); s != nil {
		s.mutexUnlock(m)
		return
	}
	m.real.Unlock()
}

func (m *Mutex) TryLock() bool {
	if s := sched(); s != nil {
		return s.mutexTryLock(m)
	}
	return m.real.TryLock()
}

// RWMutex is the modelled sync.RWMutex.
type RWMutex struct {
	real     sync.RWMutex
	writer   bool
	readers  int32
	pendingW int32
}

func (m *RWMutex) Lock() {
	if s := sched(); s != nil {
		s.rwLock(m)
		return
	}
	m.real.Lock()
}

func (m *RWMutex) Unlock() {
	if s := sched(); s != nil {
		s.rwUnlock(m)
		return
	}
	m.real.Unlock()
}

func (m *RWMutex) RLock() {
	if s := sched(); s != nil {
		s.rwRLock(m)
		return
	}
	m.real.RLock()
}

func (m *RWMutex) RUnlock() {
	if s := sched(); s != nil {
		s.rwRUnlock(m)
		return
	}
	m.real.RUnlock()
}

func (m *RWMutex) TryLock() bool  { return m.real.TryLock() }
func (m *RWMutex) TryRLock() bool { return m.real.TryRLock() }
func (m *RWMutex) RLocker() Locker { return (*rlocker)(m) }

type rlocker RWMutex

func (r *rlocker) Lock()   { (*RWMutex)(r).RLock() }
func (r *rlocker) Unlock() { (*RWMutex)(r).RUnlock() }
