module verif

go 1.20

require (
	github.com/evanoberholster/imagemeta v0.0.0
	github.com/rs/zerolog v1.29.0
	github.com/tinylib/msgp v1.1.8
)

require (
	github.com/klauspost/cpuid/v2 v2.2.4 // indirect
	github.com/mattn/go-colorable v0.1.13 // indirect
	github.com/mattn/go-isatty v0.0.17 // indirect
	github.com/philhofer/fwd v1.1.2 // indirect
	github.com/pkg/errors v0.9.1 // indirect
	golang.org/x/sys v0.5.0 // indirect
)

replace github.com/evanoberholster/imagemeta => /repo
