#!/bin/bash
# tools_seed_auto.sh <name> <srcdir> — like tools_seed.sh, taking placement (line 1) and `go test ...` command (line 2) from <srcdir>/demo_cmd.txt
name="$1"; src="$2"
dest=$(sed -n 1p "$src/demo_cmd.txt" | tr -d '`' | sed 's/^[^A-Za-z0-9._\/]*//; s/[[:space:]].*$//')
cmd=$(grep -m1 -E '(^|[;&[:space:]])go test ' "$src/demo_cmd.txt" | sed 's/.*go test //' | tr -d '`')
[ -z "$dest" ] && dest=.
echo "placement=$dest  args=$cmd"
eval "set -- $cmd"
exec /verif/tools_seed.sh "$name" "$src" "$dest" "$@"
