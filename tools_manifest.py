#!/usr/bin/env python3
"""Regenerates MANIFEST.json from the table below (keeps it valid at all times)."""
import json, subprocess, sys
CLAIMED = {
 # id: (technique, level text, level note, design ref)
 "C17": ("exhaustive enumeration of every value of every finite enum/identifier domain against independently typed name tables",
         "Every value (2^8 / 2^16 bit patterns, signed types included) of every exported enumeration and identifier type is formatted on the real code; documented members are compared with an independently typed table, the rest with the documented fallback, and the parse inverses named in the statement are checked. The domain is finite and fully covered, so the verdict is exact for the listed types.",
         "Trusted: the independently typed tables in engine/cmd/vcheck/c17.go; the verif-tagged forwarding functions for the two unexported stringers.",
         "DESIGN.md §6 C17"),
}
CLAIMED["C16"]=("exhaustive enumeration of value domains and of all short decoder inputs (strings <=4/6 over a 16-symbol alphabet, byte strings <=2, every prefix and 1-byte substitution of valid encodings)",
  "Every value of each 8/16-bit type, all 2^16 ExposureBias encodings, the k/100 grid (and in the thorough tier all 2^32 float32 bit patterns) for the float types, pattern and bit-walk values for 64-256-bit types are marshalled and unmarshalled through text, JSON and MessagePack (both API styles, fresh and dirty destinations) on the real code; every decoder is run on every short input of the stated alphabets. Exhaustive within those stated domains.",
  "Trusted: encoding/json, msgp runtime; the notion of valid value stated in the evidence assumptions.", "DESIGN.md §6 C16")
CLAIMED["C09"]=("exhaustive enumeration of all 1-byte (and 2-byte) perturbations, predicate-range splices, truncations and suffixes of ~55 canonical headers against an independently written signature table",
  "All four sniffing entry points are executed on every single-byte perturbation (24 positions x 256 values) of every canonical header, on every one/two-range splice of every ordered header pair and on every length 0..24 with a suffix menu; the pure classifier is additionally run on every 2-byte perturbation (thorough: all 65536 value pairs per position pair). Agreement, non-consumption, prefix-only behaviour, error mapping and signature correctness (narrow must-table for completeness, wide may-table for soundness) are checked on every case.",
  "Trusted: the signature table in engine/cmd/vcheck/c09.go (typed from format specifications, not from the code).", "DESIGN.md §6 C09")
CLAIMED["C12"]=("exhaustive enumeration of every prefix over the signature alphabet {I,M,*,0x00,x} up to length 7/10, window-boundary prefixes, against a naive first-index search",
  "Every prefix string over the 5-symbol signature alphabet up to length 7 (quick) / 10 (thorough), times both headers, two first-IFD offsets and five tails (exactly 28 bytes, one byte short, 4 KiB, later signatures, no signature), plus 1600 repeating partial-signature prefixes around the 4 KiB and 8 KiB buffer boundaries, is searched by the real ScanTiffHeader (bufio and plain reader) and compared with a naive reference: offset, byte order, first-IFD offset, ErrNoExif, and the stream position afterwards.",
  "Trusted: the 10-line naive reference search; the locality argument (a scan step reads 4 symbols, advances 1 or 2) for prefixes beyond the bound.", "DESIGN.md §6 C12")
CLAIMED["C03"]=("deviation-bounded exhaustive enumeration (<=1 quick, <=2 thorough deviations) of logical Exif records and forward layouts through a TIFF encoder whose own record is the oracle",
  "A 48-field logical record is encoded in both byte orders by a generator (self-validated on every execution by an independent TIFF walker) and decoded by imagemeta.Decode and exif2.Parse; every observable of the result is compared with the reference model's expectation. All executions with up to 1 (quick) / 2 (thorough) deviations among field values/types/absence (boundary menus) and 7 layout axes are covered, plus every subset of <=2/3 fields on the empty record.",
  "Trusted: the reference model obs.ExpectExif (Exif 2.32 semantics) and the encoder; stated value domains.", "DESIGN.md §6 C03")
CLAIMED["C06"]=("deviation-bounded exhaustive enumeration of payload x container x surroundings x entry point; relation against the bare-TIFF decode of the same payload",
  "The same logical payload is embedded in JPEG, PNG, CR3 (CMT1/2/4) and HEIF files with a menu of surrounding content and decoded by every corresponding entry point; all observables except the image type must equal those of imagemeta.Decode on the bare TIFF, and the image type must be the container's. All executions with <=1 (quick) / <=2 (thorough) deviations over field values, layout axes (including first-IFD offset) and surroundings, both byte orders.",
  "Trusted: the container builders (JPEG/PNG with CRC/ISOBMFF) in engine/gen; pure relation, so no expected values.", "DESIGN.md §6 C06")
CLAIMED["C07"]=("deviation-bounded exhaustive enumeration of (record, layout, container, entry point) with both byte-order encodings compared pairwise",
  "Every logical record and layout within the deviation bound is encoded twice, little- and big-endian, in each of the five containers, and the two decode results (values, zone names and errors) are compared for every entry point.",
  "Trusted: the encoder writes embedded values left-justified per TIFF 6.0 in either order.", "DESIGN.md §6 C07")
CLAIMED["C13"]=("deviation-bounded exhaustive enumeration (<=1 quick, <=3 thorough) of XMP records x serialisation styles, plus an exhaustive value-length x padding grid; generator cross-checked with encoding/xml",
  "A record of 38 simple and 6 array properties is serialised with every combination of up to 1 (quick) / 3 (thorough) deviations over values, element/attribute form, absence, array sizes, quote character, attribute and element white space (space, LF, tab, CRLF, 37/130/600 blanks), white space before '>', leading junk, unknown properties and namespaces, a second rdf:Description, xap prefixes and neighbour swaps; ParseXmp's result is compared field by field with the record, and with the parse of the opposite (all-element) serialisation. A grid of every value length 1..1600 x padding menu x form checks the look-ahead steps: exact value for lengths <= 1024, error-or-exact beyond, never a wrong value, and the following property must survive.",
  "Trusted: the serialiser (validated per execution by encoding/xml) and the expectation function in c13.go.", "DESIGN.md §6 C13")
NOT_YET = {}
def main():
    props=[json.loads(l) for l in open('/verif/properties.jsonl')]
    hooks=subprocess.run(['git','-C','/repo','log','--format=%H %s'],capture_output=True,text=True).stdout.splitlines()
    hook_commits=[l.split()[0] for l in hooks if l.split(' ',1)[1].startswith('verif hooks')]
    checks=[]; na=[]
    for p in props:
        i=p['id']
        if i in CLAIMED:
            t,text,note,ref=CLAIMED[i]
            checks.append({"property_id":i,"quick_cmd":f"./vcheck {i} quick","thorough_cmd":f"./vcheck {i} thorough",
              "evidence_file":f"/verif/evidence/{i}.json","replay_cmd_template":"./vcheck replay {path}","engine":"vcheck",
              "level_claimed":{"category":"model_checking","text":text,"design_ref":ref},"level_note":note,"technique":t})
        else:
            na.append({"property_id":i,"reason":NOT_YET.get(i,"check not built yet in this session (work in progress; see DESIGN.md §6 for the planned bounded exhaustive check)")})
    m={"version":1,
       "setup_cmd":"./vcheck build",
       "hooks":{"guard":"verif (Go build tag)","enable":"go build -tags verif -overlay <generated overlay.json> (see ./vcheck); the overlay rewrites the \"sync\" import of library files to the vsync shim without touching /repo",
                "baseline_off_cmd":"cd /repo && GOFLAGS=-mod=mod GOPROXY=off GOSUMDB=off GOTOOLCHAIN=local go test -json -vet=off -count=1 -timeout 25m ./...",
                "source_commits":hook_commits,"add_only":True},
       "engines":[{"name":"vcheck","path":"/verif/engine","serves_properties":sorted(CLAIMED),"kind_free_text":"hand-written deviation-bounded stateless explorer (engine/mc) over choice points: generated file bytes, scripted reader answers, pool answers, schedules, configurations, API histories; executes the real implementation rebuilt from /repo on every run"}],
       "checks":checks,
       "not_applicable":na,
       "notes":"All checks are bounded exhaustive explorations of the real implementation; see DESIGN.md. known_findings.jsonl lists fixed/open genuine defects."}
    json.dump(m,open('/verif/MANIFEST.json','w'),indent=1)
    import jsonschema
    jsonschema.validate(m,json.load(open('/root/.vp/MANIFEST.schema.json')))
    print("MANIFEST ok:",len(checks),"claimed,",len(na),"not claimed")
main()
