#!/usr/bin/env python3
"""Regenerates MANIFEST.json from the table below (keeps it valid at all times)."""
import json, subprocess, sys
CLAIMED = {
 # id: (technique, level text, level note, design ref)
 "C17": ("exhaustive enumeration of every value of every finite enum/identifier domain against independently typed name tables",
         "Every value (2^8 / 2^16 bit patterns, signed types included) of every exported enumeration and identifier type is formatted on the real code; documented members are compared with an independently typed table, the rest with the documented fallback, and the parse inverses named in the statement are checked. The domain is finite and fully covered, so the verdict is exact for the listed types.",
         "Trusted: the independently typed tables in engine/cmd/vcheck/c17.go; the verif-tagged forwarding functions for the two unexported stringers.",
         "DESIGN.md §6 C17"),
}
CLAIMED["C16"]=("exhaustive enumeration of value domains and of all short decoder inputs (strings <=4/6 over a 16-symbol alphabet, byte strings <=2, every prefix and 1-byte substitution of valid encodings)",
  "Every value of each 8/16-bit type, all 2^16 ExposureBias encodings, the k/100 grid (and in the thorough tier all 2^32 float32 bit patterns) for the float types, pattern and bit-walk values for 64-256-bit types are marshalled and unmarshalled through text, JSON and MessagePack (both API styles, fresh and dirty destinations) on the real code; every decoder is run on every short input of the stated alphabets. Exhaustive within those stated domains.",
  "Trusted: encoding/json, msgp runtime; the notion of valid value stated in the evidence assumptions.", "DESIGN.md §6 C16")
CLAIMED["C09"]=("exhaustive enumeration of all 1-byte (and 2-byte) perturbations, predicate-range splices, truncations and suffixes of ~55 canonical headers against an independently written signature table",
  "All four sniffing entry points are executed on every single-byte perturbation (24 positions x 256 values) of every canonical header, on every one/two-range splice of every ordered header pair and on every length 0..24 with a suffix menu; the pure classifier is additionally run on every 2-byte perturbation (thorough: all 65536 value pairs per position pair). Agreement, non-consumption, prefix-only behaviour, error mapping and signature correctness (narrow must-table for completeness, wide may-table for soundness) are checked on every case.",
  "Trusted: the signature table in engine/cmd/vcheck/c09.go (typed from format specifications, not from the code).", "DESIGN.md §6 C09")
CLAIMED["C12"]=("exhaustive enumeration of every prefix over the signature alphabet {I,M,*,0x00,x} up to length 7/10, window-boundary prefixes, against a naive first-index search",
  "Every prefix string over the 5-symbol signature alphabet up to length 7 (quick) / 10 (thorough), times both headers, two first-IFD offsets and five tails (exactly 28 bytes, one byte short, 4 KiB, later signatures, no signature), plus 1600 repeating partial-signature prefixes around the 4 KiB and 8 KiB buffer boundaries, is searched by the real ScanTiffHeader (bufio and plain reader) and compared with a naive reference: offset, byte order, first-IFD offset, ErrNoExif, and the stream position afterwards.",
  "Trusted: the 10-line naive reference search; the locality argument (a scan step reads 4 symbols, advances 1 or 2) for prefixes beyond the bound.", "DESIGN.md §6 C12")
CLAIMED["C03"]=("deviation-bounded exhaustive enumeration (<=1 quick, <=2 thorough deviations) of logical Exif records and forward layouts through a TIFF encoder whose own record is the oracle",
  "A 48-field logical record is encoded in both byte orders by a generator (self-validated on every execution by an independent TIFF walker) and decoded by imagemeta.Decode and exif2.Parse; every observable of the result is compared with the reference model's expectation. All executions with up to 1 (quick) / 2 (thorough) deviations among field values/types/absence (boundary menus) and 7 layout axes are covered, plus every subset of <=2/3 fields on the empty record.",
  "Trusted: the reference model obs.ExpectExif (Exif 2.32 semantics) and the encoder; stated value domains.", "DESIGN.md §6 C03")
CLAIMED["C06"]=("deviation-bounded exhaustive enumeration of payload x container x surroundings x entry point; relation against the bare-TIFF decode of the same payload",
  "The same logical payload is embedded in JPEG, PNG, CR3 (CMT1/2/4) and HEIF files with a menu of surrounding content and decoded by every corresponding entry point; all observables except the image type must equal those of imagemeta.Decode on the bare TIFF, and the image type must be the container's. All executions with <=1 (quick) / <=2 (thorough) deviations over field values, layout axes (including first-IFD offset) and surroundings, both byte orders.",
  "Trusted: the container builders (JPEG/PNG with CRC/ISOBMFF) in engine/gen; pure relation, so no expected values.", "DESIGN.md §6 C06")
CLAIMED["C07"]=("deviation-bounded exhaustive enumeration of (record, layout, container, entry point) with both byte-order encodings compared pairwise",
  "Every logical record and layout within the deviation bound is encoded twice, little- and big-endian, in each of the five containers, and the two decode results (values, zone names and errors) are compared for every entry point.",
  "Trusted: the encoder writes embedded values left-justified per TIFF 6.0 in either order.", "DESIGN.md §6 C07")
CLAIMED["C13"]=("deviation-bounded exhaustive enumeration (<=1 quick, <=3 thorough) of XMP records x serialisation styles, plus an exhaustive value-length x padding grid; generator cross-checked with encoding/xml",
  "A record of 38 simple and 6 array properties is serialised with every combination of up to 1 (quick) / 3 (thorough) deviations over values, element/attribute form, absence, array sizes, quote character, attribute and element white space (space, LF, tab, CRLF, 37/130/600 blanks), white space before '>', leading junk, unknown properties and namespaces, a second rdf:Description, xap prefixes and neighbour swaps; ParseXmp's result is compared field by field with the record, and with the parse of the opposite (all-element) serialisation. A grid of every value length 1..1600 x padding menu x form checks the look-ahead steps: exact value for lengths <= 1024, error-or-exact beyond, never a wrong value, and the following property must survive.",
  "Trusted: the serialiser (validated per execution by encoding/xml) and the expectation function in c13.go.", "DESIGN.md §6 C13")
CLAIMED["C01"]=("exhaustive fault-point and malformation enumeration on the real decoders in isolated worker processes: every truncation x terminal answer, every I/O call as fault point, every structural field x malformation menu, every byte substitution, all short strings",
  "For every seed (generated minimal/rich files of every container in both byte orders, maker-note, item-based HEIF/AVIF, XMP, plus the repository samples) and every accepting entry point: every cut point k in [0,len] with EOF / injected error / data-with-EOF; every Read/Seek/ReadAt call index as a fault point (<=1 quick, <=2 thorough); every structural field of the generated files against a per-kind malformation menu (<=1 / <=2 simultaneously); every single-byte substitution (stride 5 quick, all 255 values thorough); every byte string of length <=2 and every string of length <=3/5 over a 17-symbol alphabet; every canonical header followed by every tail of length <=2/3. Any recovered panic, fatal error, worker death or hang is a violation.",
  "Trusted: the worker supervision (shared-memory progress record, re-run alone to confirm). Inputs farther than the stated bounds from a well-formed file are not covered.", "DESIGN.md §6 C01")
CLAIMED["C02"]=("the C01 execution spaces with an instrumented reader as oracle (bytes requested, seek targets, work budget) and a double-confirmed watchdog for CPU-only loops",
  "The same exhaustive spaces as C01 are executed with a counting reader: the sum of len(p) over all Read/ReadAt calls must stay within 4*len+64KiB and seek targets within 2^40; a reader work budget turns unbounded reading into a deterministic failure; an execution that makes no progress for 20 s in its batch and for 30 s alone (stack-sampled 25 times to name the loop) is reported as non-termination.",
  "Trusted: the watchdog thresholds (>=10^5 x normal execution time). Super-linear but fast CPU work on <=8 KiB inputs is not distinguished from linear.", "DESIGN.md §6 C02")
CLAIMED["C14"]=("the C01 execution spaces with the heap-allocation delta of each call as oracle",
  "Each decode/preview call in the C01 spaces is bracketed by runtime/metrics /gc/heap/allocs:bytes in a single-goroutine worker; the delta must stay within 4 MiB + 16*len. Size fields, counts and lengths of every generated container are driven through their malformation menus (up to 2^32-1 / 2^64-1).",
  "Trusted: runtime/metrics; the address-space limit on workers that turns a runaway allocation into an attributable crash.", "DESIGN.md §6 C14")
CLAIMED["C08"]=("exhaustive enumeration of chunking policies and of short-read deviations at every Read call index, compared with the in-memory run",
  "Every (seed, accepting entry point) is run under 18 uniform chunking policies (max chunk 1..4095, with and without data-with-EOF) and with <=1 (quick) / <=2 (thorough) short-read deviations {1 byte, half, len-1, data-with-EOF} placed at every Read call index; thorough adds every single-field-malformed generated seed under three policies. Value and error string must equal the in-memory run.",
  "Trusted: readers obey the io.Reader contract. Chunkings needing more than two distinct short reads that no uniform policy produces are not covered.", "DESIGN.md §6 C08")
CLAIMED["C10"]=("exhaustive enumeration of all marker sequences up to length 2/3 over a 17-symbol segment alphabet x callback behaviours, against the generator's segment table",
  "Every sequence of up to 2 (quick) / 3 (thorough) segments (JFIF, JFXX, Exif in both byte orders, XMP with 7 packet lengths, XMP extension, ICC, Photoshop, 0xFF runs, nested SOI/EOI, look-alike prefixes, COM, DRI, SOF2, 5000-byte APPn) followed by the image is scanned with every combination of 6 Exif-callback and 7 XMP-callback behaviours; callback order, header fields (byte order, first-IFD offset, absolute TIFF offset, length), the exact bytes readable in each callback, ScanJPEG's return value and the record decoded by the library's own reader are checked.",
  "Trusted: the JPEG builder's segment table. Fill bytes, multi-segment XMP and under-consuming Exif callbacks are outside the statement.", "DESIGN.md §6 C10")
CLAIMED["C11"]=("deviation-bounded exhaustive enumeration of CR3 box trees (well-formed and with one overstated/understated size) x callback behaviours with a position oracle on the underlying stream",
  "The canonical CR3 tree is varied with up to 1 (quick) / 2 (thorough) deviations (payload size menus, skeleton variants, an unknown box at 7 places x 3 sizes, trailing 8/16-byte boxes, any box in 64-bit form, and in the second space any box's size off by a 9-value menu) x both byte orders x 45 callback behaviour combinations. After every top-level call the logical stream position must be the next top-level box; at every callback entry/exit it must not exceed the declared end of the handled box or of any ancestor; callback readers must yield exactly the generator's payload; headers must carry the right directory type; PreviewCR3 and the record decoded through the callbacks must equal what was put in.",
  "Trusted: the box-tree builder; observation only at callback boundaries and call returns (an over-read inside a box that re-synchronises before any observation point is not visible).", "DESIGN.md §6 C11")
NOT_YET = {}
def main():
    props=[json.loads(l) for l in open('/verif/properties.jsonl')]
    hooks=subprocess.run(['git','-C','/repo','log','--format=%H %s'],capture_output=True,text=True).stdout.splitlines()
    hook_commits=[l.split()[0] for l in hooks if l.split(' ',1)[1].startswith('verif hooks')]
    checks=[]; na=[]
    for p in props:
        i=p['id']
        if i in CLAIMED:
            t,text,note,ref=CLAIMED[i]
            checks.append({"property_id":i,"quick_cmd":f"./vcheck {i} quick","thorough_cmd":f"./vcheck {i} thorough",
              "evidence_file":f"/verif/evidence/{i}.json","replay_cmd_template":"./vcheck replay {path}","engine":"vcheck",
              "level_claimed":{"category":"model_checking","text":text,"design_ref":ref},"level_note":note,"technique":t})
        else:
            na.append({"property_id":i,"reason":NOT_YET.get(i,"check not built yet in this session (work in progress; see DESIGN.md §6 for the planned bounded exhaustive check)")})
    m={"version":1,
       "setup_cmd":"./vcheck build",
       "hooks":{"guard":"verif (Go build tag)","enable":"go build -tags verif -overlay <generated overlay.json> (see ./vcheck); the overlay rewrites the \"sync\" import of library files to the vsync shim without touching /repo",
                "baseline_off_cmd":"cd /repo && GOFLAGS=-mod=mod GOPROXY=off GOSUMDB=off GOTOOLCHAIN=local go test -json -vet=off -count=1 -timeout 25m ./...",
                "source_commits":hook_commits,"add_only":True},
       "engines":[{"name":"vcheck","path":"/verif/engine","serves_properties":sorted(CLAIMED),"kind_free_text":"hand-written deviation-bounded stateless explorer (engine/mc) over choice points: generated file bytes, scripted reader answers, pool answers, schedules, configurations, API histories; executes the real implementation rebuilt from /repo on every run"}],
       "checks":checks,
       "not_applicable":na,
       "notes":"All checks are bounded exhaustive explorations of the real implementation; see DESIGN.md. known_findings.jsonl lists fixed/open genuine defects."}
    json.dump(m,open('/verif/MANIFEST.json','w'),indent=1)
    import jsonschema
    jsonschema.validate(m,json.load(open('/root/.vp/MANIFEST.schema.json')))
    print("MANIFEST ok:",len(checks),"claimed,",len(na),"not claimed")
main()
