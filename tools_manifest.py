#!/usr/bin/env python3
"""Regenerates MANIFEST.json from the table below (keeps it valid at all times)."""
import json, subprocess, sys
CLAIMED = {
 # id: (technique, level text, level note, design ref)
 "C17": ("exhaustive enumeration of every value of every finite enum/identifier domain against independently typed name tables",
         "Every value (2^8 / 2^16 bit patterns, signed types included) of every exported enumeration and identifier type is formatted on the real code; documented members are compared with an independently typed table, the rest with the documented fallback, and the parse inverses named in the statement are checked. The domain is finite and fully covered, so the verdict is exact for the listed types.",
         "Trusted: the independently typed tables in engine/cmd/vcheck/c17.go; the verif-tagged forwarding functions for the two unexported stringers.",
         "DESIGN.md §6 C17"),
}
CLAIMED["C16"]=("exhaustive enumeration of value domains and of all short decoder inputs (strings <=4/6 over a 16-symbol alphabet, byte strings <=2, every prefix and 1-byte substitution of valid encodings)",
  "Every value of each 8/16-bit type, all 2^16 ExposureBias encodings, the k/100 grid (and in the thorough tier all 2^32 float32 bit patterns) for the float types, pattern and bit-walk values for 64-256-bit types are marshalled and unmarshalled through text, JSON and MessagePack (both API styles, fresh and dirty destinations) on the real code; every decoder is run on every short input of the stated alphabets. Exhaustive within those stated domains.",
  "Trusted: encoding/json, msgp runtime; the notion of valid value stated in the evidence assumptions.", "DESIGN.md §6 C16")
CLAIMED["C09"]=("exhaustive enumeration of all 1-byte (and 2-byte) perturbations, predicate-range splices, truncations and suffixes of ~55 canonical headers against an independently written signature table",
  "All four sniffing entry points are executed on every single-byte perturbation (24 positions x 256 values) of every canonical header, on every one/two-range splice of every ordered header pair and on every length 0..24 with a suffix menu; the pure classifier is additionally run on every 2-byte perturbation (thorough: all 65536 value pairs per position pair). Agreement, non-consumption, prefix-only behaviour, error mapping and signature correctness (narrow must-table for completeness, wide may-table for soundness) are checked on every case.",
  "Trusted: the signature table in engine/cmd/vcheck/c09.go (typed from format specifications, not from the code).", "DESIGN.md §6 C09")
NOT_YET = {}
def main():
    props=[json.loads(l) for l in open('/verif/properties.jsonl')]
    hooks=subprocess.run(['git','-C','/repo','log','--format=%H %s'],capture_output=True,text=True).stdout.splitlines()
    hook_commits=[l.split()[0] for l in hooks if l.split(' ',1)[1].startswith('verif hooks')]
    checks=[]; na=[]
    for p in props:
        i=p['id']
        if i in CLAIMED:
            t,text,note,ref=CLAIMED[i]
            checks.append({"property_id":i,"quick_cmd":f"./vcheck {i} quick","thorough_cmd":f"./vcheck {i} thorough",
              "evidence_file":f"/verif/evidence/{i}.json","replay_cmd_template":"./vcheck replay {path}","engine":"vcheck",
              "level_claimed":{"category":"model_checking","text":text,"design_ref":ref},"level_note":note,"technique":t})
        else:
            na.append({"property_id":i,"reason":NOT_YET.get(i,"check not built yet in this session (work in progress; see DESIGN.md §6 for the planned bounded exhaustive check)")})
    m={"version":1,
       "setup_cmd":"./vcheck build",
       "hooks":{"guard":"verif (Go build tag)","enable":"go build -tags verif -overlay <generated overlay.json> (see ./vcheck); the overlay rewrites the \"sync\" import of library files to the vsync shim without touching /repo",
                "baseline_off_cmd":"cd /repo && GOFLAGS=-mod=mod GOPROXY=off GOSUMDB=off GOTOOLCHAIN=local go test -json -vet=off -count=1 -timeout 25m ./...",
                "source_commits":hook_commits,"add_only":True},
       "engines":[{"name":"vcheck","path":"/verif/engine","serves_properties":sorted(CLAIMED),"kind_free_text":"hand-written deviation-bounded stateless explorer (engine/mc) over choice points: generated file bytes, scripted reader answers, pool answers, schedules, configurations, API histories; executes the real implementation rebuilt from /repo on every run"}],
       "checks":checks,
       "not_applicable":na,
       "notes":"All checks are bounded exhaustive explorations of the real implementation; see DESIGN.md. known_findings.jsonl lists fixed/open genuine defects."}
    json.dump(m,open('/verif/MANIFEST.json','w'),indent=1)
    import jsonschema
    jsonschema.validate(m,json.load(open('/root/.vp/MANIFEST.schema.json')))
    print("MANIFEST ok:",len(checks),"claimed,",len(na),"not claimed")
main()
