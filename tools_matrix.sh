#!/bin/bash
# tools_matrix.sh [tier] [names...] — runs every seeded change against the check of its property and writes seeded/MATRIX.md.
# A seeded change counts as detected when the check exits 1 with a VIOLATION line (HARNESS-ERROR or exit 0 = missed).
set -u
tier="${1:-quick}"; shift || true
cd /verif
names=("$@"); if [ ${#names[@]} -eq 0 ]; then names=($(ls seeded | grep -E '^C[0-9]+-' )); fi
out=seeded/MATRIX.md
{ echo "# Seeded changes vs checks ($tier tier) — $(git -C /repo log --oneline | head -1)"; echo; echo "| seeded change | property | verdict | first signature | wall |"; echo "|---|---|---|---|---|"; } > "$out.tmp.$$"
for n in "${names[@]}"; do
  prop=$(python3 -c "import json;print(json.load(open('seeded/$n/meta.json'))['property'])" 2>/dev/null || echo "${n%%-*}")
  res=$(MUTANT_LINES=40 ./tools_mutant.sh /verif/seeded/$n/patch.diff "$prop" "$tier" 2>&1)
  rc=$(echo "$res" | grep -o 'exit=[0-9]*' | tail -1); wall=$(echo "$res" | grep -o 'wall=[0-9]*s' | tail -1)
  sig=$(echo "$res" | grep -m1 '^  signature:' | sed 's/^  signature: //' | cut -c1-110 | sed 's/|/\\|/g')
  if echo "$res" | grep -q '^VIOLATION' && [ "$rc" = "exit=1" ]; then v="DETECTED"; elif echo "$res" | grep -q 'does not apply'; then v="patch does not apply"; else v="MISSED ($rc)"; fi
  echo "| $n | $prop | $v | $sig | $wall |" >> "$out.tmp.$$"
  echo "$n $prop $v"
done
# rows of changes that were not re-run are kept from the previous matrix
flock /root/matrix.lock python3 - "$out" "$out.tmp.$$" <<'PY'
import sys,re
old,new=sys.argv[1],sys.argv[2]
rows={}
def read(p):
    try: ls=open(p).read().split("\n")
    except FileNotFoundError: return
    for l in ls:
        m=re.match(r"\| (C\d+-\w+) \|",l)
        if m: rows[m.group(1)]=l
read(old); read(new)
head=[l for l in open(new).read().split("\n") if not re.match(r"\| C\d+-",l) and l.strip()]
open(old,"w").write("\n".join(head[:1]+[""]+head[1:]+[rows[k] for k in sorted(rows)])+"\n")
PY
rm -f "$out.tmp.$$"
