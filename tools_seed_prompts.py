#!/usr/bin/env python3
# tools_seed_prompts.py <batch-letter> [ids…] — prepares one scratch worktree of /repo and one prompt file per property under /tmp/seed
# for independent sub-agents that write property-breaking changes.  The prompt contains the property record and the locations
# used by earlier seeded changes, nothing else from /verif.
import json,subprocess,os,sys
b=sys.argv[1]
prev={}
for d in sorted(os.listdir('/verif/seeded')):
    if not d.startswith('C') or not os.path.isdir('/verif/seeded/'+d): continue
    m=json.load(open('/verif/seeded/%s/meta.json'%d))
    files=[l.split(' b/')[1].strip() for l in open('/verif/seeded/%s/patch.diff'%d) if l.startswith('diff --git')]
    prev.setdefault(m['property'],[]).append("%s (%s)"%(", ".join(files), m['change'][:300]))
tmpl=open('/verif/seeded/PROMPT.tmpl').read()
os.makedirs('/tmp/seed',exist_ok=True)
for l in open('/verif/properties.jsonl'):
    p=json.loads(l); i=p['id']
    if len(sys.argv)>2 and i not in sys.argv[2:]: continue
    open('/tmp/seed/%s.prompt.txt'%i,'w').write(tmpl.replace('@B@',b).replace('@ID@',i).replace('@PROP@',json.dumps(p,indent=1)).replace('@PREV@',"\n".join(" - "+x for x in prev.get(i,[]))))
    subprocess.run(['git','-C','/repo','worktree','add','-q','--detach','/tmp/seed/%s-%s'%(i,b),'HEAD'],check=True)
    os.makedirs('/tmp/seed/%s-%s.out'%(i,b),exist_ok=True)
print('ok')
