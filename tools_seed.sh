#!/bin/bash
# tools_seed.sh <name> <srcdir> <demo-dest-relative-dir> <go test args...>
# Confirms a seeded change independently in a fresh scratch worktree of /repo:
#  (1) patch applies and builds, (2) the repository's own suite passes with it,
#  (3) the demonstration fails with it, (4) passes without it.
# On success stores patch.diff, the demonstration and confirm.log in /verif/seeded/<name>/.
set -u
name="$1"; src="$2"; dest="$3"; shift 3
export GOFLAGS=-mod=mod GOPROXY=off GOSUMDB=off GOTOOLCHAIN=local
wt=$(mktemp -d /tmp/seedconfirm.XXXXXX)
git -C /repo worktree add -q --detach "$wt/w" HEAD || exit 2
cleanup() { git -C /repo worktree remove --force "$wt/w" 2>/dev/null; rm -rf "$wt"; }
trap cleanup EXIT
cd "$wt/w"
log="$wt/confirm.log"; : > "$log"
git apply "$src/patch.diff" || { echo "FAIL: patch does not apply"; exit 1; }
go build ./... >>"$log" 2>&1 || { echo "FAIL: build"; tail -5 "$log"; exit 1; }
echo "## suite with change" >>"$log"
if ! go test -vet=off -count=1 ./... >>"$log" 2>&1; then echo "FAIL: suite fails with change"; grep -E "^(FAIL|---)" "$log" | head; exit 1; fi
demos=$(ls "$src" | grep -E '_test\.go$|\.go$' | grep -v patch)
for f in $demos; do cp "$src/$f" "$dest/$f"; done
echo "## demo with change: go test $*" >>"$log"
timeout 600 go test "$@" >>"$log" 2>&1; rc1=$?
git apply -R "$src/patch.diff"
echo "## demo without change" >>"$log"
timeout 600 go test "$@" >>"$log" 2>&1; rc2=$?
echo "demo with change exit=$rc1, without change exit=$rc2" | tee -a "$log"
if [ $rc1 -eq 0 ] || [ $rc2 -ne 0 ]; then echo "FAIL: demonstration does not discriminate"; tail -30 "$log"; exit 1; fi
out=/verif/seeded/$name; mkdir -p "$out"
cp "$src/patch.diff" "$out/patch.diff"
for f in $demos; do cp "$src/$f" "$out/$f"; done
[ -f "$src/notes.md" ] && cp "$src/notes.md" "$out/notes.md"
cp "$log" "$out/confirm.log"
echo "$dest" > "$out/demo_dest.txt"; echo "go test $*" > "$out/demo_cmd.txt"
echo "CONFIRMED $name -> $out"
